import QVerif.Lemmas.RunnerStep
open Runner
namespace Runner

/-! ### frame lemmas -/
theorem get_set (s : St) (t u : Nat) (x : TS) (h : t < s.th.length) :
    (s.set t x).get u = if u = t then x else s.get u := by
  by_cases hu : u = t
  · subst hu; simp [St.get, St.set, h]
  · simp [St.get, St.set, hu, List.getD_eq_getElem?_getD, List.getElem?_set_ne (Ne.symm hu)]

theorem getD_set (th : List TS) (t u : Nat) (x : TS) (h : t < th.length) :
    (th.set t x).getD u {} = if u = t then x else th.getD u {} := by
  by_cases hu : u = t
  · subst hu; simp [h]
  · simp [hu, List.getD_eq_getElem?_getD, List.getElem?_set_ne (Ne.symm hu)]

theorem get_default (s : St) (t : Nat) (h : s.th.length ≤ t) : s.get t = {} := by
  simp [St.get, List.getD_eq_getElem?_getD, List.getElem?_eq_none h]

theorem get_eq_getElem (s : St) (t : Nat) (h : t < s.th.length) : s.get t = s.th[t] := by
  simp [St.get, List.getD_eq_getElem?_getD, h]

theorem countP_set_add {p : TS → Bool} {l : List TS} {i : Nat} {a : TS} (h : i < l.length) :
    (l.set i a).countP p + (if p l[i] then 1 else 0) = l.countP p + (if p a then 1 else 0) := by
  rw [List.countP_set h]
  by_cases hp : p l[i] = true
  · have : 0 < l.countP p := List.countP_pos_iff.mpr ⟨l[i], List.getElem_mem h, hp⟩
    simp [hp]; omega
  · simp [hp]

/-! ### location classes (Bool, so that they compute on concrete locations) -/
def Loc.member : Loc → Bool
  | .a2 | .a3 | .a4 | .b0 | .b1 | .b2 | .b3 | .b4 | .c0 | .c1 | .c2 | .d0 => true
  | _ => false
def Loc.pre : Loc → Bool
  | .a2 | .a3 | .a4 | .b0 | .b1 => true
  | _ => false
def Loc.arrived : Loc → Bool
  | .b2 | .b3 | .b4 | .c0 | .c1 | .c2 | .d0 => true
  | _ => false
/-- locations only an executor can be at, inside the closed phase -/
def Loc.execOnly : Loc → Bool
  | .b2 | .b3 | .b4 | .g0 | .g1 | .g2 | .g3 | .g4 | .g5 | .g6 => true
  | _ => false
def Loc.gath : Loc → Bool
  | .d0 | .d1 | .d2 => true
  | _ => false
/-- executor locations at which the outcome of f is available -/
def Loc.outReg : Loc → Bool
  | .b4 | .d0 | .d1 | .d2 | .g0 | .g1 | .g2 | .g3 | .g4 => true
  | _ => false
def Loc.eHold : Loc → Bool      -- E held regardless of role
  | .a1 | .a2 | .a7 | .b3 | .b4 | .g0 | .g1 | .g2 | .g3 | .g4 | .g5 | .g6 => true
  | _ => false
def Loc.vHold : Loc → Bool
  | .a2 | .a3 | .b2 | .b3 | .b4 | .c0 | .d1 | .d2 | .g5 => true
  | _ => false

def TS.inExec (x : TS) : Bool := x.loc.execOnly || (x.exec && x.loc.gath)
def TS.holdsE (x : TS) : Bool := x.loc.eHold || (x.exec && x.loc.gath)
def TS.holdsV (x : TS) : Bool := x.loc.vHold
def TS.isMember (x : TS) : Bool := x.loc.member
def TS.isPre (x : TS) : Bool := x.loc.pre
def TS.isArrived (x : TS) : Bool := x.loc.arrived
def St.outcomeSet (s : St) : Bool := s.result.isSome || s.exn.isSome
def TS.inOut (x : TS) : Bool := x.inExec && x.loc.outReg

/-! evaluation lemmas: predicates stay folded on unknown threads, and compute on literals / known locations -/
@[simp] theorem inExec_mk (l p i e r t o) : TS.inExec ⟨l, p, i, e, r, t, o⟩ = (l.execOnly || (e && l.gath)) := rfl
@[simp] theorem inOut_mk (l p i e r t o) : TS.inOut ⟨l, p, i, e, r, t, o⟩ = ((l.execOnly || (e && l.gath)) && l.outReg) := rfl
theorem inOut_of_loc {x : TS} {l : Loc} (h : x.loc = l) : x.inOut = ((l.execOnly || (x.exec && l.gath)) && l.outReg) := by simp [TS.inOut, TS.inExec, h]
theorem inOut_inExec {x : TS} (h : x.inOut = true) : x.inExec = true := by simp [TS.inOut] at h; exact h.1
@[simp] theorem holdsE_mk (l p i e r t o) : TS.holdsE ⟨l, p, i, e, r, t, o⟩ = (l.eHold || (e && l.gath)) := rfl
@[simp] theorem holdsV_mk (l p i e r t o) : TS.holdsV ⟨l, p, i, e, r, t, o⟩ = l.vHold := rfl
@[simp] theorem isMember_mk (l p i e r t o) : TS.isMember ⟨l, p, i, e, r, t, o⟩ = l.member := rfl
@[simp] theorem isPre_mk (l p i e r t o) : TS.isPre ⟨l, p, i, e, r, t, o⟩ = l.pre := rfl
@[simp] theorem isArrived_mk (l p i e r t o) : TS.isArrived ⟨l, p, i, e, r, t, o⟩ = l.arrived := rfl
theorem inExec_of_loc {x : TS} {l : Loc} (h : x.loc = l) : x.inExec = (l.execOnly || (x.exec && l.gath)) := by simp [TS.inExec, h]
theorem holdsE_of_loc {x : TS} {l : Loc} (h : x.loc = l) : x.holdsE = (l.eHold || (x.exec && l.gath)) := by simp [TS.holdsE, h]
theorem holdsV_of_loc {x : TS} {l : Loc} (h : x.loc = l) : x.holdsV = l.vHold := by simp [TS.holdsV, h]
theorem isMember_of_loc {x : TS} {l : Loc} (h : x.loc = l) : x.isMember = l.member := by simp [TS.isMember, h]
theorem isPre_of_loc {x : TS} {l : Loc} (h : x.loc = l) : x.isPre = l.pre := by simp [TS.isPre, h]
theorem isArrived_of_loc {x : TS} {l : Loc} (h : x.loc = l) : x.isArrived = l.arrived := by simp [TS.isArrived, h]
theorem inExec_holds {x : TS} (h : x.inExec = true) : x.holdsV = true ∨ x.holdsE = true := by
  obtain ⟨l, p, i, e, r, t, o⟩ := x
  cases l <;> cases e <;> simp_all [Loc.execOnly, Loc.gath, Loc.vHold, Loc.eHold]
theorem late_inExec {x : TS} (h : x.loc = .g4 ∨ x.loc = .g5 ∨ x.loc = .g6) : x.inExec = true := by
  rcases h with h | h | h <;> simp [inExec_of_loc h, Loc.execOnly]
theorem late_holdsE {x : TS} (h : x.loc = .g4 ∨ x.loc = .g5 ∨ x.loc = .g6) : x.holdsE = true := by
  rcases h with h | h | h <;> simp [holdsE_of_loc h, Loc.eHold]

/-- control invariant -/
structure CInv (s : St) : Prop where
  lockE : ∀ t, s.E = some t ↔ (s.get t).holdsE = true
  lockV : ∀ t, s.V = some t ↔ (s.get t).holdsV = true
  execFlag : ∀ t, ((s.get t).loc.execOnly = true ∨ (s.get t).loc = .g7 → (s.get t).exec = true) ∧
                  ((s.get t).loc = .c0 ∨ (s.get t).loc = .c1 ∨ (s.get t).loc = .c2 → (s.get t).exec = false)
  oneExec : ∀ t u, (s.get t).inExec = true → (s.get u).inExec = true → t = u
  tcCount : s.tc = s.th.countP TS.isMember
  ecCount : s.ec = s.th.countP TS.isArrived + s.g
  openPh : (∀ t, (s.get t).inExec = false) → s.outcomeSet = false ∧ s.g = 0 ∧ (s.ec < s.tc ∨ (s.tc = 0 ∧ s.ec = 0))
  closedPh : ∀ t u, (s.get t).inExec = true → (s.get u).isPre = false
  outcome : s.outcomeSet = true ↔ ∃ t, (s.get t).inOut = true
  gathOutcome : ∀ t, (s.get t).loc.gath = true → s.outcomeSet = true
  lateTc : ∀ t, (s.get t).loc = .g4 ∨ (s.get t).loc = .g5 ∨ (s.get t).loc = .g6 → s.tc = 0
  lateReset : ∀ t, (s.get t).loc = .g5 ∨ (s.get t).loc = .g6 → s.ec = 0 ∧ s.g = 0
  icwLoc : ∀ t, t ∈ s.icw → (s.get t).loc = .c2 ∨ (s.get t).loc = .g2
  ecwLoc : ∀ t, t ∈ s.ecw → (s.get t).loc = .a9
  icwNodup : s.icw.Nodup
  ecwNodup : s.ecw.Nodup
  early : ∀ t, (s.get t).loc = .c2 → t ∉ s.icw → s.outcomeSet = true

theorem cinv_init (th : List TS) (h : ∀ x ∈ th, x.loc = .idle) : CInv { th := th } := by
  have hg : ∀ t, (St.get { th := th } t).loc = .idle := by
    intro t
    simp only [St.get, List.getD_eq_getElem?_getD]
    cases ht : th[t]? with
    | none => simp
    | some x => simpa using h x (List.mem_of_getElem? ht)
  have h1 : th.countP TS.isMember = 0 := by
    rw [List.countP_eq_zero]; intro x hx; simp [TS.isMember, h x hx, Loc.member]
  have h2 : th.countP TS.isArrived = 0 := by
    rw [List.countP_eq_zero]; intro x hx; simp [TS.isArrived, h x hx, Loc.arrived]
  constructor
  case tcCount => simp [h1]
  case ecCount => simp [h2]
  all_goals (try intro t)
  all_goals simp_all [TS.holdsE, TS.holdsV, TS.inExec, TS.inOut, Loc.eHold, Loc.vHold, Loc.execOnly, Loc.gath, St.outcomeSet, TS.isPre, Loc.pre]


theorem arrived_le_member (l : List TS) : l.countP TS.isArrived ≤ l.countP TS.isMember := by
  apply List.countP_mono_left
  intro x _
  simp only [TS.isArrived, TS.isMember]
  cases x.loc <;> simp [Loc.arrived, Loc.member]

theorem member_split (l : List TS) : l.countP TS.isMember = l.countP TS.isPre + l.countP TS.isArrived := by
  induction l with
  | nil => simp
  | cons x t ih =>
    simp only [List.countP_cons, ih, TS.isMember, TS.isPre, TS.isArrived]
    obtain ⟨l, _, _, _, _, _, _⟩ := x
    cases l <;> simp [Loc.member, Loc.pre, Loc.arrived] <;> omega

theorem countP_pos_of_get (s : St) (p : TS → Bool) (hd : p {} = false) (u : Nat) (h : p (s.get u) = true) :
    0 < s.th.countP p := by
  by_cases hu : u < s.th.length
  · rw [List.countP_pos_iff]
    exact ⟨s.th[u], List.getElem_mem hu, by simpa [get_eq_getElem s u hu] using h⟩
  · rw [get_default s u (by omega)] at h
    simp [hd] at h

theorem countP_zero_get (s : St) (p : TS → Bool) (hd : p {} = false) (h0 : s.th.countP p = 0) (u : Nat) :
    p (s.get u) = false := by
  cases hp : p (s.get u) with
  | false => rfl
  | true => have := countP_pos_of_get s p hd u hp; omega

theorem countP_two (p : TS → Bool) (hd : p {} = false) (s : St) (a b : Nat) (hab : a ≠ b)
    (ha : p (s.get a) = true) (hb : p (s.get b) = true) : 2 ≤ s.th.countP p := by
  have hal : a < s.th.length := by
    by_cases hh : a < s.th.length
    · exact hh
    · rw [get_default s a (by omega)] at ha; simp [hd] at ha
  have h1 := @countP_set_add p s.th a {} hal
  rw [← get_eq_getElem s a hal, ha] at h1
  simp [hd] at h1
  have h2 : 0 < (s.th.set a {}).countP p := by
    have : p ((St.set s a {}).get b) = true := by
      rw [get_set s a b {} hal]; simp [Ne.symm hab, hb]
    exact countP_pos_of_get (s.set a {}) p hd b this
  omega

theorem pre_le_member (l : List TS) : l.countP TS.isPre ≤ l.countP TS.isMember := by
  apply List.countP_mono_left
  intro x _
  simp only [TS.isPre, TS.isMember]
  cases x.loc <;> simp [Loc.pre, Loc.member]

section preservation
variable {s s' : St}

theorem pres_lockE (h : CInv s) (hs : Step s s') : ∀ u, s'.E = some u ↔ (s'.get u).holdsE = true := by
  intro u
  have hE := h.lockE u
  cases hs
  all_goals (
    rename_i t hlt hloc hg
    have hEt := h.lockE t
    have hx := h.execFlag t
    simp only [St.at, St.set, St.get, getD_set _ _ _ _ hlt] at *
    by_cases hu : u = t
    · subst hu
      simp_all [TS.holdsE, Loc.eHold, Loc.gath, Loc.execOnly]
    · have hu' : ¬ t = u := fun e => hu e.symm
      first
        | (simp_all; done)
        | (simp_all [TS.holdsE, Loc.eHold, Loc.gath, Loc.execOnly]; done)
        | grind)

theorem pres_lockV (h : CInv s) (hs : Step s s') : ∀ u, s'.V = some u ↔ (s'.get u).holdsV = true := by
  intro u
  have hV := h.lockV u
  cases hs
  all_goals (
    rename_i t hlt hloc hg
    have hVt := h.lockV t
    simp only [St.at, St.set, St.get, getD_set _ _ _ _ hlt] at *
    by_cases hu : u = t
    · subst hu
      simp_all [TS.holdsV, Loc.vHold]
    · have hu' : ¬ t = u := fun e => hu e.symm
      first
        | (simp_all; done)
        | (simp_all [TS.holdsV, Loc.vHold]; done)
        | grind)

theorem pres_execFlag (h : CInv s) (hs : Step s s') : ∀ u,
    ((s'.get u).loc.execOnly = true ∨ (s'.get u).loc = .g7 → (s'.get u).exec = true) ∧
    ((s'.get u).loc = .c0 ∨ (s'.get u).loc = .c1 ∨ (s'.get u).loc = .c2 → (s'.get u).exec = false) := by
  intro u
  have hx := h.execFlag u
  cases hs
  all_goals (
    rename_i t hlt hloc hg
    have hxt := h.execFlag t
    simp only [St.at, St.set, St.get, getD_set _ _ _ _ hlt] at *
    by_cases hu : u = t
    · subst hu
      simp_all [Loc.execOnly]
    · simp_all)

theorem pres_tc (h : CInv s) (hs : Step s s') : s'.tc = s'.th.countP TS.isMember := by
  have h0 := h.tcCount
  have hl := h.lateTc
  cases hs
  all_goals (
    rename_i t hlt hloc hg
    have hlt' := hl t
    have hget : s.th.getD t {} = s.th[t] := by simp [List.getD_eq_getElem?_getD, hlt]
    simp only [St.at, St.set, St.get, hget] at *
    have hc := fun x => @countP_set_add TS.isMember s.th t x hlt
    simp [TS.isMember, Loc.member, hloc] at hc
    grind [TS.isMember, Loc.member])

theorem pres_ec (h : CInv s) (hs : Step s s') : s'.ec = s'.th.countP TS.isArrived + s'.g := by
  have h0 := h.ecCount
  have h1 := h.tcCount
  have hl := h.lateTc
  have hm := arrived_le_member s.th
  cases hs
  all_goals (
    rename_i t hlt hloc hg
    have hlt' := hl t
    have hget : s.th.getD t {} = s.th[t] := by simp [List.getD_eq_getElem?_getD, hlt]
    simp only [St.at, St.set, St.get, hget] at *
    have hc := fun x => @countP_set_add TS.isArrived s.th t x hlt
    simp [TS.isArrived, Loc.arrived, hloc] at hc
    grind [TS.isArrived, Loc.arrived])

/-- single-thread update lemma for executor uniqueness -/
theorem oneExec_update (th : List TS) (t : Nat) (x : TS) (hlt : t < th.length)
    (hold : ∀ a b, (th.getD a {}).inExec = true → (th.getD b {}).inExec = true → a = b)
    (hnew : x.inExec = true → (th.getD t {}).inExec = true ∨ ∀ u, u ≠ t → (th.getD u {}).inExec = false) :
    ∀ a b, ((th.set t x).getD a {}).inExec = true → ((th.set t x).getD b {}).inExec = true → a = b := by
  intro a b ha hb
  rw [getD_set _ _ _ _ hlt] at ha hb
  by_cases hat : a = t <;> by_cases hbt : b = t
  · omega
  · simp only [hat, hbt, if_true, if_false] at ha hb
    rcases hnew ha with h1 | h2
    · exact hat ▸ (hold t b h1 hb)
    · have := h2 b hbt; simp_all
  · simp only [hat, hbt, if_true, if_false] at ha hb
    rcases hnew hb with h1 | h2
    · exact hbt ▸ (hold a t ha h1)
    · have := h2 a hat; simp_all
  · simp only [hat, hbt, if_false] at ha hb
    exact hold a b ha hb

theorem pres_oneExec (h : CInv s) (hs : Step s s') :
    ∀ a b, (s'.get a).inExec = true → (s'.get b).inExec = true → a = b := by
  have hcl := h.closedPh
  cases hs
  all_goals (
    rename_i t hlt hloc hg
    have hxt := h.execFlag t
    simp only [St.at, St.set, St.get] at *
    apply oneExec_update _ _ _ hlt h.oneExec
    first
      | (simp [TS.inExec, Loc.execOnly, Loc.gath]; done)
      | (intro _; left; simp_all [TS.inExec, Loc.execOnly, Loc.gath]; done)
      | (intro _; right; intro u _
         cases hu : (s.th.getD u {}).inExec with
         | false => rfl
         | true => have := hcl u t hu; rw [TS.isPre, hloc] at this; simp [Loc.pre] at this))

theorem member_pos (h : CInv s) (u : Nat) (hm : (s.get u).loc.member = true) : 0 < s.tc := by
  rw [h.tcCount]; exact countP_pos_of_get s TS.isMember (by simp [TS.isMember, Loc.member]) u (by simpa [TS.isMember] using hm)

theorem pres_late (h : CInv s) (hs : Step s s') : ∀ u,
    ((s'.get u).loc = .g4 ∨ (s'.get u).loc = .g5 ∨ (s'.get u).loc = .g6 → s'.tc = 0) ∧
    ((s'.get u).loc = .g5 ∨ (s'.get u).loc = .g6 → s'.ec = 0 ∧ s'.g = 0) := by
  intro u
  have hl := h.lateTc u
  have hr := h.lateReset u
  have hEu := h.lockE u
  cases hs
  all_goals (
    rename_i t hlt hloc hg
    have hlt' := h.lateTc t
    have hrt := h.lateReset t
    have hEt := h.lockE t
    have h1 := h.oneExec u t
    have hclt := h.closedPh u t
    have hmp := member_pos h t
    simp only [St.at, St.set, St.get, getD_set _ _ _ _ hlt] at *
    by_cases hu : u = t
    · subst hu
      simp_all
    · have hu' : ¬ t = u := fun e => hu e.symm
      simp only [hu, if_false]
      rw [holdsE_of_loc hloc] at hEt
      rw [inExec_of_loc hloc] at h1
      rw [isPre_of_loc hloc] at hclt
      simp only [hloc, Loc.eHold, Loc.gath, Loc.execOnly, Loc.pre, Loc.member] at hEt h1 hclt hmp
      first
        | (exact ⟨hl, hr⟩)
        | (refine ⟨fun hh => ?_, fun hh => ?_⟩
           · have hEu' := late_holdsE hh
             have hXu := late_inExec hh
             grind
           · have hEu' := late_holdsE (Or.inr hh)
             have hXu := late_inExec (Or.inr hh)
             grind))

theorem pres_icw (h : CInv s) (hs : Step s s') :
    (∀ u, u ∈ s'.icw → (s'.get u).loc = .c2 ∨ (s'.get u).loc = .g2) ∧ s'.icw.Nodup := by
  have hi := h.icwLoc
  have hn := h.icwNodup
  cases hs
  all_goals (
    rename_i t hlt hloc hg
    have hit := hi t
    simp only [St.at, St.set, St.get, getD_set _ _ _ _ hlt] at *
    refine ⟨fun u hu => ?_, ?_⟩
    · by_cases hut : u = t
      · subst hut
        first
          | (simp; done)
          | (exfalso; have := hi u hu; simp_all; done)
          | (exfalso; have := hi u (List.mem_of_mem_tail hu); simp_all; done)
          | (exfalso; exact (List.Nodup.mem_erase_iff hn).mp hu |>.1 rfl)
      · simp only [hut, if_false]
        first
          | exact hi u hu
          | exact hi u (List.mem_of_mem_tail hu)
          | exact hi u (List.mem_of_mem_erase hu)
          | (have := List.mem_append.mp hu; simp at this; rcases this with h1 | h1
             · exact hi u h1
             · exact absurd h1 hut)
    · first
        | exact hn
        | exact hn.tail
        | exact hn.erase _
        | (refine List.nodup_append.mpr ⟨hn, by simp, ?_⟩
           intro a ha b hb
           simp at hb; subst hb
           intro e; subst e
           have := hit ha; simp_all))

theorem pres_ecw (h : CInv s) (hs : Step s s') :
    (∀ u, u ∈ s'.ecw → (s'.get u).loc = .a9) ∧ s'.ecw.Nodup := by
  have hi := h.ecwLoc
  have hn := h.ecwNodup
  cases hs
  all_goals (
    rename_i t hlt hloc hg
    have hit := hi t
    simp only [St.at, St.set, St.get, getD_set _ _ _ _ hlt] at *
    refine ⟨fun u hu => ?_, ?_⟩
    · by_cases hut : u = t
      · subst hut
        first
          | (simp; done)
          | (simp at hu; done)
          | (exfalso; have := hi u hu; simp_all; done)
          | (exfalso; exact (List.Nodup.mem_erase_iff hn).mp hu |>.1 rfl)
      · simp only [hut, if_false]
        first
          | exact hi u hu
          | (simp at hu; done)
          | exact hi u (List.mem_of_mem_erase hu)
          | (have := List.mem_append.mp hu; simp at this; rcases this with h1 | h1
             · exact hi u h1
             · exact absurd h1 hut)
    · first
        | exact hn
        | exact List.nodup_nil
        | exact hn.erase _
        | (refine List.nodup_append.mpr ⟨hn, by simp, ?_⟩
           intro a ha b hb
           simp at hb; subst hb
           intro e; subst e
           have := hit ha; simp_all))

theorem pres_closedPh (h : CInv s) (hs : Step s s') :
    ∀ a b, (s'.get a).inExec = true → (s'.get b).isPre = false := by
  intro a b
  have hc := h.closedPh a b
  have hVa := h.lockV a
  have hEa := h.lockE a
  cases hs
  case a1ok t hlt hloc hg =>
    have hEt := h.lockE t
    rw [holdsE_of_loc hloc] at hEt
    simp only [St.at, St.set, St.get, getD_set _ _ _ _ hlt] at *
    intro hx
    by_cases ha : a = t
    · subst ha; simp [Loc.execOnly, Loc.gath] at hx
    · simp only [ha, if_false] at hx
      rcases inExec_holds hx with h1 | h1
      · have := hVa.mpr h1; simp_all
      · have := hEa.mpr h1; simp_all [Loc.eHold]
  case b1exec t hlt hloc hg =>
    have hop := h.openPh
    have htc := h.tcCount
    have hec := h.ecCount
    have hsp := member_split s.th
    have hcl := h.closedPh
    simp only [St.at, St.set, St.get, getD_set _ _ _ _ hlt] at *
    intro _
    by_cases hb : b = t
    · subst hb; simp [Loc.pre]
    · simp only [hb, if_false]
      have hopen : ∀ u, (s.th.getD u {}).inExec = false := by
        intro u
        cases hu : (s.th.getD u {}).inExec with
        | false => rfl
        | true => have := hcl u t hu; rw [isPre_of_loc hloc] at this; simp [Loc.pre] at this
      have hg0 := (hop hopen).2.1
      cases hpb : (s.th.getD b {}).isPre with
      | false => rfl
      | true =>
        have hpt : (s.th.getD t {}).isPre = true := by rw [isPre_of_loc hloc]; simp [Loc.pre]
        have := countP_two TS.isPre (by simp [TS.isPre, Loc.pre]) s b t hb hpb hpt
        omega
  all_goals (
    rename_i t hlt hloc hg
    have hca := h.closedPh a t
    have hcb := h.closedPh t b
    have hxt := h.execFlag t
    simp only [St.at, St.set, St.get, getD_set _ _ _ _ hlt] at *
    rw [isPre_of_loc hloc] at hca
    rw [inExec_of_loc hloc] at hcb
    by_cases ha : a = t <;> by_cases hb : b = t <;>
      simp only [ha, hb, if_true, if_false, inExec_mk, isPre_mk, Loc.execOnly, Loc.gath, Loc.pre] at * <;>
      (try subst ha) <;> (try subst hb) <;> (try simp_all; done))

/-- ∃ over threads after a single-thread update -/
theorem exists_update (Q : TS → Bool) (th : List TS) (t : Nat) (x : TS) (hlt : t < th.length) :
    (∃ w, Q ((th.set t x).getD w {}) = true) ↔ (Q x = true ∨ ∃ w, w ≠ t ∧ Q (th.getD w {}) = true) := by
  constructor
  · rintro ⟨w, hw⟩
    rw [getD_set _ _ _ _ hlt] at hw
    by_cases hwt : w = t
    · left; simpa [hwt] using hw
    · right; exact ⟨w, hwt, by simpa [hwt] using hw⟩
  · rintro (h | ⟨w, hwt, hw⟩)
    · exact ⟨t, by rw [getD_set _ _ _ _ hlt]; simpa using h⟩
    · exact ⟨w, by rw [getD_set _ _ _ _ hlt]; simpa [hwt] using hw⟩

theorem exists_split (Q : TS → Bool) (th : List TS) (t : Nat) :
    (∃ w, Q (th.getD w {}) = true) ↔ (Q (th.getD t {}) = true ∨ ∃ w, w ≠ t ∧ Q (th.getD w {}) = true) := by
  constructor
  · rintro ⟨w, hw⟩
    by_cases hwt : w = t
    · left; simpa [hwt] using hw
    · right; exact ⟨w, hwt, hw⟩
  · rintro (h | ⟨w, _, hw⟩)
    · exact ⟨t, h⟩
    · exact ⟨w, hw⟩

theorem pres_outcome (h : CInv s) (hs : Step s s') : s'.outcomeSet = true ↔ ∃ w, (s'.get w).inOut = true := by
  have ho := h.outcome
  have h1 := h.oneExec
  cases hs
  all_goals (
    rename_i t hlt hloc hg
    have hxt := h.execFlag t
    simp only [St.at, St.set, St.get] at *
    rw [exists_update TS.inOut _ _ _ hlt]
    rw [exists_split TS.inOut _ t] at ho
    rw [inOut_of_loc hloc] at ho
    have hno : (s.th.getD t {}).inExec = true → ¬ ∃ w, w ≠ t ∧ (s.th.getD w {}).inOut = true := by
      rintro ht ⟨w, hwt, hw⟩
      exact hwt (h1 w t (inOut_inExec hw) ht)
    rw [inExec_of_loc hloc] at hno
    simp only [inOut_mk, hloc, Loc.execOnly, Loc.gath, Loc.outReg, St.outcomeSet] at *
    first
      | exact ho
      | (simp_all; done)
      | grind)

theorem gath_cases {l : Loc} (h : l.gath = true) : l = .d0 ∨ l = .d1 ∨ l = .d2 := by
  cases l <;> simp_all [Loc.gath]

theorem pres_gathOutcome (h : CInv s) (hs : Step s s') : ∀ u, (s'.get u).loc.gath = true → s'.outcomeSet = true := by
  intro u
  have hgo := h.gathOutcome u
  have hVu := h.lockV u
  have hmu := member_pos h u
  cases hs
  all_goals (
    rename_i t hlt hloc hg
    have hgt := h.gathOutcome t
    have hea := h.early t
    have hlt' := h.lateTc t
    have hxt := h.execFlag t
    have hou := h.outcome
    have hio := @inOut_of_loc (s.get t) _ hloc
    simp only [St.at, St.set, St.get, getD_set _ _ _ _ hlt] at *
    by_cases hu : u = t
    · subst hu
      simp only [if_true]
      first
        | (intro hh; simp [Loc.gath] at hh; done)
        | (intro _; simp_all [St.outcomeSet, Loc.gath]; done)
        | (intro _; refine hou.mpr ⟨u, ?_⟩; rw [hio]; simp_all [Loc.execOnly, Loc.outReg, Loc.gath])
    · simp only [hu, if_false]
      first
        | exact hgo
        | (intro _; simp [St.outcomeSet]; done)
        | (intro hh
           exfalso
           rcases gath_cases hh with h0 | h0 | h0
           · have := hmu (by rw [h0]; rfl); simp_all
           · have := hVu.mpr (by rw [holdsV_of_loc h0]; rfl); simp_all
           · have := hVu.mpr (by rw [holdsV_of_loc h0]; rfl); simp_all))

theorem pres_early (h : CInv s) (hs : Step s s') :
    ∀ u, (s'.get u).loc = .c2 → u ∉ s'.icw → s'.outcomeSet = true := by
  intro u
  have he := h.early u
  have hmu := member_pos h u
  have hn := h.icwNodup
  cases hs
  all_goals (
    rename_i t hlt hloc hg
    have hgt := h.gathOutcome t
    have hlt' := h.lateTc t
    have hxt := h.execFlag t
    have hou := h.outcome
    have hio := @inOut_of_loc (s.get t) _ hloc
    simp only [St.at, St.set, St.get, getD_set _ _ _ _ hlt] at *
    by_cases hu : u = t
    · subst hu
      simp only [if_true]
      first
        | (intro hh; simp at hh; done)
        | (intro _ hni; simp at hni; done)
    · simp only [hu, if_false]
      first
        | exact he
        | (intro _ _; simp [St.outcomeSet]; done)
        | (intro h2 hni; exact he h2 (fun hm => hni (by simp [hm])))
        | (intro h2 hni; exact he h2 (fun hm => hni ((List.mem_erase_of_ne hu).mpr hm)))
        | (intro h2 _
           exfalso
           have := hmu (by rw [h2]; rfl); simp_all; done)
        | (intro h2 _
           first
             | exact hgt (by rw [hloc]; rfl)
             | (refine hou.mpr ⟨t, ?_⟩; rw [hio]; simp_all [Loc.execOnly, Loc.outReg, Loc.gath])))

theorem outcome_false_of_exec (h : CInv s) (t : Nat) (hx : (s.get t).inExec = true) (hno : (s.get t).loc.outReg = false) :
    s.outcomeSet = false := by
  cases ho : s.outcomeSet with
  | false => rfl
  | true =>
    obtain ⟨w, hw⟩ := h.outcome.mp ho
    have hwt : w = t := h.oneExec w t (inOut_inExec hw) hx
    subst hwt
    simp [TS.inOut, hno] at hw

theorem open_cases (h : CInv s) (t : Nat) (x : TS) (hlt : t < s.th.length)
    (hopen' : ∀ u, ((s.th.set t x).getD u {}).inExec = false) :
    x.inExec = false ∧
    (((s.get t).inExec = false ∧ s.outcomeSet = false ∧ s.g = 0 ∧ (s.ec < s.tc ∨ (s.tc = 0 ∧ s.ec = 0))) ∨
     (s.get t).inExec = true) := by
  have hnew := hopen' t
  rw [getD_set _ _ _ _ hlt] at hnew
  simp only [if_true] at hnew
  refine ⟨hnew, ?_⟩
  cases hold : (s.get t).inExec with
  | true => right; rfl
  | false =>
    left
    refine ⟨rfl, ?_⟩
    apply h.openPh
    intro u
    by_cases hu : u = t
    · rw [hu]; exact hold
    · have := hopen' u
      rw [getD_set _ _ _ _ hlt] at this
      simpa [hu, St.get] using this

set_option maxHeartbeats 800000 in
theorem pres_openPh (h : CInv s) (hs : Step s s') :
    (∀ u, (s'.get u).inExec = false) → s'.outcomeSet = false ∧ s'.g = 0 ∧ (s'.ec < s'.tc ∨ (s'.tc = 0 ∧ s'.ec = 0)) := by
  cases hs
  all_goals (
    rename_i t hlt hloc hg
    have hgt := h.gathOutcome t
    have hlt' := h.lateTc t
    have hrt := h.lateReset t
    have hmp := member_pos h t
    have hie := @inExec_of_loc (s.get t) _ hloc
    have hof := outcome_false_of_exec h t
    have hxt := h.execFlag t
    intro hopen'
    simp only [St.at, St.set] at hopen'
    obtain ⟨hnew, hcase⟩ := open_cases h t _ hlt hopen'
    rw [hie] at hcase hof
    simp only [inExec_mk] at hnew
    simp only [St.get] at *
    simp only [St.at, St.set, St.outcomeSet, hloc, Loc.execOnly, Loc.gath, Loc.member, Loc.outReg] at *
    rcases hcase with ⟨_, ho, hg0, har⟩ | hx
    · first
        | exact ⟨ho, hg0, har⟩
        | (simp_all; done)
        | (simp_all; omega)
    · first
        | (simp_all; done)
        | (simp_all; omega)
        )

/-- the control invariant is inductive -/
theorem cinv_step (h : CInv s) (hs : Step s s') : CInv s' where
  lockE := pres_lockE h hs
  lockV := pres_lockV h hs
  execFlag := pres_execFlag h hs
  oneExec := pres_oneExec h hs
  tcCount := pres_tc h hs
  ecCount := pres_ec h hs
  openPh := pres_openPh h hs
  closedPh := pres_closedPh h hs
  outcome := pres_outcome h hs
  gathOutcome := pres_gathOutcome h hs
  lateTc := fun u => (pres_late h hs u).1
  lateReset := fun u => (pres_late h hs u).2
  icwLoc := (pres_icw h hs).1
  ecwLoc := (pres_ecw h hs).1
  icwNodup := (pres_icw h hs).2
  ecwNodup := (pres_ecw h hs).2
  early := pres_early h hs

end preservation

/-- states reachable from an initial state (all threads idle, any queued calls) by the executable `step` -/
inductive Reachable (th0 : List TS) : St → Prop
  | init : Reachable th0 { th := th0 }
  | next {s s' : St} (a : Act) : Reachable th0 s → step s a = some s' → Reachable th0 s'

theorem cinv_reachable (th0 : List TS) (h0 : ∀ x ∈ th0, x.loc = .idle) {s : St} (hr : Reachable th0 s) : CInv s := by
  induction hr with
  | init => exact cinv_init th0 h0
  | next a _ hstep ih => exact cinv_step ih (step_sound _ _ a hstep)

/-- C07 (batching wrappers): at most one thread is between the start of `f(batch)` and the return of its `.result()`;
    that thread owns both locks. Holds for any number of threads, calls and any interleaving. -/
theorem f_exclusive (th0 : List TS) (h0 : ∀ x ∈ th0, x.loc = .idle) {s : St} (hr : Reachable th0 s)
    (a b : Nat) (ha : (s.get a).loc = .b3) (hb : (s.get b).loc = .b3) : a = b ∧ s.E = some a ∧ s.V = some a := by
  have h := cinv_reachable th0 h0 hr
  refine ⟨h.oneExec a b ?_ ?_, (h.lockE a).mpr ?_, (h.lockV a).mpr ?_⟩
  · rw [inExec_of_loc ha]; rfl
  · rw [inExec_of_loc hb]; rfl
  · rw [holdsE_of_loc ha]; rfl
  · rw [holdsV_of_loc ha]; rfl

/-- the "Result was not yet ready to retrieve!" branch is dead: whenever a thread is about to gather, the outcome is set -/
theorem gather_has_outcome (th0 : List TS) (h0 : ∀ x ∈ th0, x.loc = .idle) {s : St} (hr : Reachable th0 s)
    (t : Nat) (ht : (s.get t).loc = .d0) : gather s ≠ .exc 999 ∨ s.exn = some 999 := by
  have h := cinv_reachable th0 h0 hr
  have ho := h.gathOutcome t (by rw [ht]; rfl)
  simp only [St.outcomeSet, Bool.or_eq_true, Option.isSome_iff_exists] at ho
  rcases ho with ⟨rs, hrs⟩ | ⟨e, he⟩
  · left; simp [gather, hrs]
  · cases hres : s.result with
    | some rs => left; simp [gather, hres]
    | none =>
      by_cases h9 : e = 999
      · right; rw [he, h9]
      · left; simp [gather, hres, he, h9]

end Runner
