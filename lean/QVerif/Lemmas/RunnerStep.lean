import QVerif.Model.Runner
open Runner
namespace Runner

/-- relational presentation of `step`, one constructor per guarded branch; every constructor has the
    same shape `(t) (hlt) (hloc) (hg : guard)` so that case analyses can name hypotheses uniformly -/
inductive Step (s : St) : St → Prop
  | start (t) (hlt : t < s.th.length) (hloc : (s.get t).loc = .idle) (hg : (s.get t).todo ≠ []) :
      Step s (s.set t { s.get t with loc := .a0, pubs := (s.get t).todo.headD [], todo := (s.get t).todo.tail,
                                     exec := false, loc_res := none, idx := 0 })
  | a0 (t) (hlt : t < s.th.length) (hloc : (s.get t).loc = .a0) (hg : s.E = none) :
      Step s ({ s with E := some t }.at t .a1)
  | a1ok (t) (hlt : t < s.th.length) (hloc : (s.get t).loc = .a1) (hg : s.V = none) :
      Step s ({ s with V := some t, batch := s.batch ++ (s.get t).pubs, blen := s.blen + (s.get t).pubs.length, tc := s.tc + 1 }.set t
                { s.get t with loc := .a2, idx := s.blen })
  | a1fail (t) (hlt : t < s.th.length) (hloc : (s.get t).loc = .a1) (hg : s.V ≠ none) : Step s (s.at t .a7)
  | a2 (t) (hlt : t < s.th.length) (hloc : (s.get t).loc = .a2) (hg : True) : Step s ({ s with E := none }.at t .a3)
  | a3 (t) (hlt : t < s.th.length) (hloc : (s.get t).loc = .a3) (hg : True) : Step s ({ s with V := none }.at t .a4)
  | a4 (t) (hlt : t < s.th.length) (hloc : (s.get t).loc = .a4) (hg : True) : Step s ({ s with ecw := [] }.at t .b0)
  | a7 (t) (hlt : t < s.th.length) (hloc : (s.get t).loc = .a7) (hg : True) : Step s ({ s with E := none }.at t .a8)
  | a8 (t) (hlt : t < s.th.length) (hloc : (s.get t).loc = .a8) (hg : True) : Step s ({ s with ecw := s.ecw ++ [t] }.at t .a9)
  | a9 (t) (hlt : t < s.th.length) (hloc : (s.get t).loc = .a9) (hg : t ∉ s.ecw) : Step s (s.at t .a0)
  | a9timeout (t) (hlt : t < s.th.length) (hloc : (s.get t).loc = .a9) (hg : t ∈ s.ecw) :
      Step s ({ s with ecw := s.ecw.erase t }.at t .a0)
  | b0 (t) (hlt : t < s.th.length) (hloc : (s.get t).loc = .b0) (hg : True) : Step s (s.at t .b1)
  | b1exec (t) (hlt : t < s.th.length) (hloc : (s.get t).loc = .b1) (hg : s.V = none ∧ s.ec + 1 = s.tc) :
      Step s ({ s with V := some t, ec := s.ec + 1 }.set t { s.get t with loc := .b2, exec := true })
  | b1wait (t) (hlt : t < s.th.length) (hloc : (s.get t).loc = .b1) (hg : s.V = none ∧ s.ec + 1 ≠ s.tc) :
      Step s ({ s with V := some t, ec := s.ec + 1 }.set t { s.get t with loc := .c0, exec := false })
  | b2 (t) (hlt : t < s.th.length) (hloc : (s.get t).loc = .b2) (hg : s.E = none) : Step s ({ s with E := some t }.at t .b3)
  | b3ok (t) (hlt : t < s.th.length) (hloc : (s.get t).loc = .b3) (hg : True) :
      Step s ({ s with result := some s.batch, exn := none, flog := s.flog ++ [(s.batch, Outcome.ok s.batch)] }.at t .b4)
  | b3fail (t) (hlt : t < s.th.length) (hloc : (s.get t).loc = .b3) (hg : True) :
      Step s ({ s with result := none, exn := some s.flog.length, flog := s.flog ++ [(s.batch, Outcome.exc s.flog.length)] }.at t .b4)
  | b4 (t) (hlt : t < s.th.length) (hloc : (s.get t).loc = .b4) (hg : True) : Step s ({ s with V := none }.at t .d0)
  | c0 (t) (hlt : t < s.th.length) (hloc : (s.get t).loc = .c0) (hg : True) : Step s ({ s with V := none }.at t .c1)
  | c1 (t) (hlt : t < s.th.length) (hloc : (s.get t).loc = .c1) (hg : True) : Step s ({ s with icw := s.icw ++ [t] }.at t .c2)
  | c2 (t) (hlt : t < s.th.length) (hloc : (s.get t).loc = .c2) (hg : t ∉ s.icw) : Step s (s.at t .d0)
  | d0 (t) (hlt : t < s.th.length) (hloc : (s.get t).loc = .d0) (hg : s.V = none) :
      Step s ({ s with V := some t, tc := s.tc - 1, g := s.g + 1 }.set t { s.get t with loc := .d1, loc_res := some (gather s) })
  | d1 (t) (hlt : t < s.th.length) (hloc : (s.get t).loc = .d1) (hg : True) : Step s ({ s with icw := s.icw.tail }.at t .d2)
  | d2exec (t) (hlt : t < s.th.length) (hloc : (s.get t).loc = .d2) (hg : (s.get t).exec = true) :
      Step s ({ s with V := none }.at t .g0)
  | d2plain (t) (hlt : t < s.th.length) (hloc : (s.get t).loc = .d2) (hg : ¬ (s.get t).exec = true) :
      Step s ({ s with V := none }.at t .r)
  | g0wait (t) (hlt : t < s.th.length) (hloc : (s.get t).loc = .g0) (hg : s.tc > 0) : Step s (s.at t .g1)
  | g0done (t) (hlt : t < s.th.length) (hloc : (s.get t).loc = .g0) (hg : ¬ s.tc > 0) : Step s (s.at t .g4)
  | g1 (t) (hlt : t < s.th.length) (hloc : (s.get t).loc = .g1) (hg : True) : Step s ({ s with icw := s.icw ++ [t] }.at t .g2)
  | g2 (t) (hlt : t < s.th.length) (hloc : (s.get t).loc = .g2) (hg : t ∉ s.icw) : Step s (s.at t .g3)
  | g2timeout (t) (hlt : t < s.th.length) (hloc : (s.get t).loc = .g2) (hg : t ∈ s.icw) :
      Step s ({ s with icw := s.icw.erase t }.at t .g3)
  | g3 (t) (hlt : t < s.th.length) (hloc : (s.get t).loc = .g3) (hg : True) : Step s ({ s with icw := s.icw.tail }.at t .g0)
  | g4 (t) (hlt : t < s.th.length) (hloc : (s.get t).loc = .g4) (hg : s.V = none) :
      Step s ({ s with V := some t, result := none, exn := none, batch := [], blen := 0, tc := 0, ec := 0, g := 0 }.at t .g5)
  | g5 (t) (hlt : t < s.th.length) (hloc : (s.get t).loc = .g5) (hg : True) : Step s ({ s with V := none }.at t .g6)
  | g6 (t) (hlt : t < s.th.length) (hloc : (s.get t).loc = .g6) (hg : True) : Step s ({ s with E := none }.at t .g7)
  | g7 (t) (hlt : t < s.th.length) (hloc : (s.get t).loc = .g7) (hg : True) : Step s ({ s with ecw := [] }.at t .r)
  | ret (t) (hlt : t < s.th.length) (hloc : (s.get t).loc = .r) (hg : (s.get t).loc_res.isSome = true) :
      Step s (s.set t { s.get t with loc := .idle,
                                     outs := (s.get t).outs ++ [((s.get t).loc_res.getD (.exc 0), (s.get t).idx)] })

theorem step_sound (s s' : St) (a : Act) (h : step s a = some s') : Step s s' := by
  cases a with
  | step t =>
    simp only [step] at h
    split at h
    · cases h
    · rename_i hlt
      have hlt : t < s.th.length := by omega
      split at h
      all_goals (try (split at h))
      all_goals (try (split at h))
      all_goals (first | (cases h; done) | skip)
      all_goals (simp only [Option.some.injEq] at h; subst h)
      · exact .start t hlt ‹_› (by simp_all)
      · exact .a0 t hlt ‹_› ‹_›
      · exact .a1ok t hlt ‹_› ‹_›
      · exact .a1fail t hlt ‹_› ‹_›
      · exact .a2 t hlt ‹_› trivial
      · exact .a3 t hlt ‹_› trivial
      · exact .a4 t hlt ‹_› trivial
      · exact .a7 t hlt ‹_› trivial
      · exact .a8 t hlt ‹_› trivial
      · exact .a9 t hlt ‹_› ‹_›
      · exact .b0 t hlt ‹_› trivial
      · exact .b1exec t hlt ‹_› ⟨‹_›, ‹_›⟩
      · exact .b1wait t hlt ‹_› ⟨‹_›, ‹_›⟩
      · exact .b2 t hlt ‹_› ‹_›
      · exact .b4 t hlt ‹_› trivial
      · exact .c0 t hlt ‹_› trivial
      · exact .c1 t hlt ‹_› trivial
      · exact .c2 t hlt ‹_› ‹_›
      · exact .d0 t hlt ‹_› ‹_›
      · exact .d1 t hlt ‹_› trivial
      · exact .d2exec t hlt ‹_› ‹_›
      · exact .d2plain t hlt ‹_› ‹_›
      · exact .g0wait t hlt ‹_› ‹_›
      · exact .g0done t hlt ‹_› ‹_›
      · exact .g1 t hlt ‹_› trivial
      · exact .g2 t hlt ‹_› ‹_›
      · exact .g3 t hlt ‹_› trivial
      · exact .g4 t hlt ‹_› ‹_›
      · exact .g5 t hlt ‹_› trivial
      · exact .g6 t hlt ‹_› trivial
      · exact .g7 t hlt ‹_› trivial
      · exact .ret t hlt ‹_› (by simp_all)
  | timeout t =>
    simp only [step] at h
    split at h
    · cases h
    · rename_i hlt
      have hlt : t < s.th.length := by omega
      split at h
      all_goals (try (split at h))
      all_goals (first | (cases h; done) | skip)
      all_goals (simp only [Option.some.injEq] at h; subst h)
      · exact .a9timeout t hlt ‹_› ‹_›
      · exact .g2timeout t hlt ‹_› ‹_›
  | fret t fail =>
    simp only [step] at h
    split at h
    · cases h
    · rename_i hlt
      have hlt : t < s.th.length := by omega
      split at h
      all_goals (try (split at h))
      all_goals (first | (cases h; done) | skip)
      all_goals (simp only [Option.some.injEq] at h; subst h)
      · exact .b3fail t hlt ‹_› trivial
      · exact .b3ok t hlt ‹_› trivial


/-- every relational step is a step of the executable function -/
theorem step_complete (s s' : St) (h : Step s s') : ∃ a, step s a = some s' := by
  cases h
  case a9timeout t hlt hloc hg => exact ⟨.timeout t, by simp [step, Nat.not_le.mpr hlt, hloc, hg]⟩
  case g2timeout t hlt hloc hg => exact ⟨.timeout t, by simp [step, Nat.not_le.mpr hlt, hloc, hg]⟩
  case b3ok t hlt hloc hg => exact ⟨.fret t false, by simp [step, Nat.not_le.mpr hlt, hloc]⟩
  case b3fail t hlt hloc hg => exact ⟨.fret t true, by simp [step, Nat.not_le.mpr hlt, hloc]⟩
  all_goals (
    rename_i t hlt hloc hg
    refine ⟨.step t, ?_⟩
    simp [step, Nat.not_le.mpr hlt, hloc]
    try simp_all
    try (intro h0; omega)
    try (intro h0; simp [h0] at hg))

end Runner
