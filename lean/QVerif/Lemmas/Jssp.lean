import QVerif.Model.Jssp

/-! Helper lemmas for C19 (no property statements here). -/

namespace QVerif.Jssp

/-! ### `card` = `len(set(·))` -/

theorem card_le_length {α} [DecidableEq α] (l : List α) : card l ≤ l.length := by
  induction l with
  | nil => simp [card]
  | cons a l ih => simp only [card, List.length_cons]; split <;> omega

theorem card_eq_length_iff {α} [DecidableEq α] (l : List α) : card l = l.length ↔ l.Nodup := by
  induction l with
  | nil => simp [card]
  | cons a l ih =>
    have hle := card_le_length l
    simp only [card, List.length_cons, List.nodup_cons]
    split
    · rename_i h; constructor
      · intro h'; omega
      · intro h'; exact absurd h h'.1
    · rename_i h; constructor
      · intro h'; exact ⟨h, ih.mp (by omega)⟩
      · intro h'; have := ih.mpr h'.2; omega

/-! ### the job loop -/

theorem jobLoop_ok_iff (n : String) (ops : List Operation) (visited : List Machine) :
    jobLoop n ops visited = .ok () ↔
      (∀ o ∈ ops, o.jobName = n) ∧ (∀ o ∈ ops, o.machine ∉ visited) ∧ (ops.map Operation.machine).Nodup := by
  induction ops generalizing visited with
  | nil => simp [jobLoop]
  | cons o rest ih =>
    simp only [jobLoop]
    by_cases h1 : o.jobName = n
    · by_cases h2 : o.machine ∈ visited
      · simp [h1, h2]
      · simp only [h1, ne_eq, not_true_eq_false, ↓reduceIte, h2, ih, List.mem_cons, forall_eq_or_imp,
          true_and, not_false_eq_true, List.map_cons, List.nodup_cons, List.mem_map, not_exists, not_and]
        constructor
        · rintro ⟨ha, hb, hc⟩
          refine ⟨ha, fun p hp => fun hv => hb p hp (Or.inr hv), fun p hp he => hb p hp (Or.inl he), hc⟩
        · rintro ⟨ha, hb, hc, hd⟩
          refine ⟨ha, fun p hp => fun hv => hv.elim (fun he => hc p hp he) (fun hv => hb p hp hv), hd⟩
    · simp [h1]

/-! ### neighbour check versus pairwise disjointness -/

/-- two slots do not overlap in time -/
def disj (a b : Slot) : Prop := a.fin ≤ b.start ∨ b.fin ≤ a.start

theorem disj_symm {a b : Slot} (h : disj a b) : disj b a := by
  rcases h with h | h
  · exact Or.inr h
  · exact Or.inl h

theorem chain_head_le {a : Slot} {l : List Slot} (hpos : ∀ o ∈ a :: l, 0 < o.dur) (h : chainOk (a :: l) = true) :
    ∀ o ∈ l, a.fin ≤ o.start := by
  induction l generalizing a with
  | nil => intro o ho; cases ho
  | cons b t ih =>
    simp only [chainOk, Bool.and_eq_true, Bool.not_eq_eq_eq_not, Bool.not_true, decide_eq_false_iff_not,
      Int.not_lt] at h
    intro o ho
    rcases List.mem_cons.mp ho with rfl | ho
    · exact h.1
    · have hb := ih (a := b) (fun o ho => hpos o (List.mem_cons_of_mem _ ho)) h.2 o ho
      have := hpos b (by simp)
      simp only [Slot.fin] at *
      omega

theorem chain_tail {a : Slot} {t : List Slot} (h : chainOk (a :: t) = true) : chainOk t = true := by
  cases t with
  | nil => rfl
  | cons b t' => simp only [chainOk, Bool.and_eq_true] at h; exact h.2

theorem chain_pairwise {l : List Slot} (hpos : ∀ o ∈ l, 0 < o.dur) (h : chainOk l = true) : l.Pairwise disj := by
  induction l with
  | nil => exact List.Pairwise.nil
  | cons a t ih =>
    refine List.Pairwise.cons ?_ ?_
    · intro o ho; exact Or.inl (chain_head_le hpos h o ho)
    · exact ih (fun o ho => hpos o (List.mem_cons_of_mem _ ho)) (chain_tail h)

theorem pairwise_chain {l : List Slot} (hpos : ∀ o ∈ l, 0 < o.dur)
    (hs : l.Pairwise (fun a b => a.start ≤ b.start)) (h : l.Pairwise disj) : chainOk l = true := by
  induction l with
  | nil => rfl
  | cons a t ih =>
    cases t with
    | nil => rfl
    | cons b t' =>
      simp only [chainOk, Bool.and_eq_true, Bool.not_eq_eq_eq_not, Bool.not_true, decide_eq_false_iff_not,
        Int.not_lt]
      have hab : disj a b := (List.pairwise_cons.mp h).1 b (by simp)
      have hsab : a.start ≤ b.start := (List.pairwise_cons.mp hs).1 b (by simp)
      refine ⟨?_, ih (fun o ho => hpos o (List.mem_cons_of_mem _ ho)) (List.pairwise_cons.mp hs).2
        (List.pairwise_cons.mp h).2⟩
      rcases hab with h1 | h1
      · exact h1
      · have := hpos b (by simp)
        simp only [Slot.fin] at *
        omega

theorem pairwise_disj_perm {l l' : List Slot} (hp : l.Perm l') (h : l.Pairwise disj) : l'.Pairwise disj :=
  hp.pairwise h (fun {_ _} hab => disj_symm hab)

/-- For ANY arrangement `l'` of a machine's operations that is sorted by start time, the neighbour check
on `l'` holds iff no two operations of the machine overlap (so the order of ties is irrelevant). -/
theorem machine_check_iff {l l' : List Slot} (hp : l.Perm l')
    (hs : l'.Pairwise (fun a b => a.start ≤ b.start)) (hpos : ∀ o ∈ l, 0 < o.dur) :
    chainOk l' = true ↔ l.Pairwise disj := by
  have hpos' : ∀ o ∈ l', 0 < o.dur := fun o ho => hpos o (hp.mem_iff.mpr ho)
  constructor
  · intro h; exact pairwise_disj_perm hp.symm (chain_pairwise hpos' h)
  · intro h; exact pairwise_chain hpos' hs (pairwise_disj_perm hp h)

theorem sortByStart_perm (l : List Slot) : l.Perm (sortByStart l) := (List.mergeSort_perm l _).symm

theorem sortByStart_sorted (l : List Slot) : (sortByStart l).Pairwise (fun a b => a.start ≤ b.start) := by
  have h := List.pairwise_mergeSort (le := fun (a b : Slot) => decide (a.start ≤ b.start))
    (by intro a b c; simp only [decide_eq_true_eq]; omega)
    (by intro a b; simp only [Bool.or_eq_true, decide_eq_true_eq]; omega) l
  exact h.imp (by intro a b; simp)

theorem sorted_check_iff (l : List Slot) (hpos : ∀ o ∈ l, 0 < o.dur) :
    chainOk (sortByStart l) = true ↔ l.Pairwise disj :=
  machine_check_iff (sortByStart_perm l) (sortByStart_sorted l) hpos

/-- consecutive elements respect precedence -/
def Consec (l : List Slot) : Prop := ∀ i (h : i + 1 < l.length), l[i].fin ≤ l[i + 1].start

theorem chainOk_iff_consec (l : List Slot) : chainOk l = true ↔ Consec l := by
  induction l with
  | nil => simp [chainOk, Consec]
  | cons a t ih =>
    cases t with
    | nil => simp [chainOk, Consec]
    | cons b t' =>
      simp only [chainOk, Bool.and_eq_true, Bool.not_eq_eq_eq_not, Bool.not_true, decide_eq_false_iff_not,
        Int.not_lt, ih]
      constructor
      · rintro ⟨h1, h2⟩ i hi
        cases i with
        | zero => simpa using h1
        | succ j =>
          have := h2 j (by simp at hi ⊢; omega)
          simpa using this
      · intro h
        refine ⟨by simpa using h 0 (by simp), fun i hi => ?_⟩
        have := h (i + 1) (by simp at hi ⊢; omega)
        simpa using this

/-- same-machine disjointness over all slots versus the per-machine filtered lists -/
theorem per_machine_iff (machines : List Machine) (flat : List Slot) (hm : ∀ o ∈ flat, o.machine ∈ machines) :
    (∀ m ∈ machines, (flat.filter (fun o => o.machine = m)).Pairwise disj) ↔
      flat.Pairwise (fun a b => a.machine = b.machine → disj a b) := by
  constructor
  · intro h
    induction flat with
    | nil => exact List.Pairwise.nil
    | cons a t ih =>
      refine List.Pairwise.cons ?_ ?_
      · intro b hb hab
        have := h a.machine (hm a (by simp))
        simp only [List.filter_cons, decide_true, ↓reduceIte, List.pairwise_cons, List.mem_filter,
          decide_eq_true_eq] at this
        exact this.1 b ⟨hb, hab.symm⟩
      · apply ih (fun o ho => hm o (List.mem_cons_of_mem _ ho))
        intro m hmm
        have := h m hmm
        simp only [List.filter_cons] at this
        split at this
        · exact (List.pairwise_cons.mp this).2
        · exact this
  · intro h m _
    rw [List.pairwise_filter]
    exact h.imp (by
      intro a b hab ha hb
      simp only [decide_eq_true_eq] at ha hb
      exact hab (ha.trans hb.symm))

end QVerif.Jssp
