import QVerif.Lemmas.RunnerProg
open Runner
namespace Runner

def Quiescent (s : St) : Prop := ∀ t, (s.get t).loc = .idle ∧ (s.get t).todo = []

theorem lt_of_loc {s : St} {t : Nat} (h : (s.get t).loc ≠ .idle) : t < s.th.length := by
  by_cases hh : t < s.th.length
  · exact hh
  · rw [get_default s t (by omega)] at h; exact absurd rfl h

theorem lt_of_todo {s : St} {t : Nat} (h : (s.get t).todo ≠ []) : t < s.th.length := by
  by_cases hh : t < s.th.length
  · exact hh
  · rw [get_default s t (by omega)] at h; exact absurd rfl h

/-! the three side conditions of `mu_of_step` hold trivially when the acting thread is not at A0, B1 or G3 -/
theorem sideA0 {s s' : St} (t : Nat) (hget : ∀ u, u ≠ t → s'.get u = s.get u) (h0 : (s.get t).loc ≠ .a0) :
    ∀ t', (s.get t').loc = .a0 → (s'.get t').loc = .a1 → s.V = none := by
  intro t' ha hb
  by_cases e : t' = t
  · subst e; exact absurd ha h0
  · rw [hget t' e, ha] at hb; cases hb

theorem sideB1 {s s' : St} (t : Nat) (hget : ∀ u, u ≠ t → s'.get u = s.get u) (h1 : (s.get t).loc ≠ .b1) :
    ∀ t', (s.get t').loc = .b1 → (s'.get t').loc ≠ .b1 → ∀ u, (s.get u).loc ≠ .a1 := by
  intro t' ha hb
  by_cases e : t' = t
  · subst e; exact absurd ha h1
  · rw [hget t' e] at hb; exact absurd ha hb

theorem sideG3 {s s' : St} (t : Nat) (hget : ∀ u, u ≠ t → s'.get u = s.get u) (h3 : (s.get t).loc ≠ .g3) :
    ∀ t', (s.get t').loc = .g3 → (s'.get t').loc = .g0 →
      s.tc = 0 ∨ ∃ w rest, s.icw = w :: rest ∧ (s.get w).loc = .c2 ∧ w ≠ t' := by
  intro t' ha hb
  by_cases e : t' = t
  · subst e; exact absurd ha h3
  · rw [hget t' e, ha] at hb; cases hb

/-- a step of a thread that is not at A0/B1/G3 decreases the measure -/
theorem prog_plain {s s' : St} (hc : CInv s) (t : Nat) (hs : Step s s')
    (hget : ∀ u, u ≠ t → s'.get u = s.get u)
    (h0 : (s.get t).loc ≠ .a0) (h1 : (s.get t).loc ≠ .b1) (h3 : (s.get t).loc ≠ .g3) :
    ∃ s', Step s s' ∧ muLt s' s :=
  ⟨_, hs, mu_of_step hc hs (sideA0 t hget h0) (sideB1 t hget h1) (sideG3 t hget h3)⟩

macro "oth" hlt:ident : tactic =>
  `(tactic| (intro u hu; simp only [St.at, St.set, St.get, getD_set _ _ _ _ $hlt, hu, if_false]))

macro "loc_ne" h:ident : tactic => `(tactic| (rw [$h:ident]; decide))

theorem holdsE_locs {x : TS} (h : x.holdsE = true) :
    x.loc = .a1 ∨ x.loc = .a2 ∨ x.loc = .a7 ∨ x.loc = .b3 ∨ x.loc = .b4 ∨ x.inExec = true := by
  obtain ⟨l, p, i, e, r, t, o⟩ := x
  cases l <;> cases e <;> simp_all [Loc.eHold, Loc.gath, Loc.execOnly]

theorem holdsV_locs {x : TS} (h : x.holdsV = true) :
    x.loc = .a2 ∨ x.loc = .a3 ∨ x.loc = .b2 ∨ x.loc = .b3 ∨ x.loc = .b4 ∨ x.loc = .c0 ∨ x.loc = .d1 ∨ x.loc = .d2 ∨
    x.loc = .g5 := by
  obtain ⟨l, p, i, e, r, t, o⟩ := x
  cases l <;> simp_all [TS.holdsV, Loc.vHold]

theorem inExec_locs {x : TS} (h : x.inExec = true) :
    x.loc = .b2 ∨ x.loc = .b3 ∨ x.loc = .b4 ∨ x.loc = .d0 ∨ x.loc = .d1 ∨ x.loc = .d2 ∨ x.loc = .g0 ∨ x.loc = .g1 ∨
    x.loc = .g2 ∨ x.loc = .g3 ∨ x.loc = .g4 ∨ x.loc = .g5 ∨ x.loc = .g6 := by
  obtain ⟨l, p, i, e, r, t, o⟩ := x
  cases l <;> cases e <;> simp_all [Loc.gath, Loc.execOnly]

theorem member_locs {x : TS} (h : x.isMember = true) :
    x.loc = .a2 ∨ x.loc = .a3 ∨ x.loc = .a4 ∨ x.loc = .b0 ∨ x.loc = .b1 ∨ x.loc = .b2 ∨ x.loc = .b3 ∨ x.loc = .b4 ∨
    x.loc = .c0 ∨ x.loc = .c1 ∨ x.loc = .c2 ∨ x.loc = .d0 := by
  obtain ⟨l, p, i, e, r, t, o⟩ := x
  cases l <;> simp_all [TS.isMember, Loc.member]

set_option maxHeartbeats 1000000 in
theorem progress {s : St} (hc : CInv s) (hd : DInv s) (hnq : ¬ Quiescent s) : ∃ s', Step s s' ∧ muLt s' s := by
  by_cases h : ∃ t, (s.get t).loc = .b3
  · obtain ⟨t, ht⟩ := h
    have hlt := lt_of_loc (s := s) (t := t) (by loc_ne ht)
    exact prog_plain hc t (Step.b3ok t hlt ht trivial) (by oth hlt) (by loc_ne ht) (by loc_ne ht) (by loc_ne ht)
  have n_b3 : ∀ t, (s.get t).loc ≠ .b3 := fun t ht => h ⟨t, ht⟩
  clear h
  by_cases h : ∃ t, (s.get t).loc = .a2
  · obtain ⟨t, ht⟩ := h
    have hlt := lt_of_loc (s := s) (t := t) (by loc_ne ht)
    exact prog_plain hc t (Step.a2 t hlt ht trivial) (by oth hlt) (by loc_ne ht) (by loc_ne ht) (by loc_ne ht)
  have n_a2 : ∀ t, (s.get t).loc ≠ .a2 := fun t ht => h ⟨t, ht⟩
  clear h
  by_cases h : ∃ t, (s.get t).loc = .a3
  · obtain ⟨t, ht⟩ := h
    have hlt := lt_of_loc (s := s) (t := t) (by loc_ne ht)
    exact prog_plain hc t (Step.a3 t hlt ht trivial) (by oth hlt) (by loc_ne ht) (by loc_ne ht) (by loc_ne ht)
  have n_a3 : ∀ t, (s.get t).loc ≠ .a3 := fun t ht => h ⟨t, ht⟩
  clear h
  by_cases h : ∃ t, (s.get t).loc = .b4
  · obtain ⟨t, ht⟩ := h
    have hlt := lt_of_loc (s := s) (t := t) (by loc_ne ht)
    exact prog_plain hc t (Step.b4 t hlt ht trivial) (by oth hlt) (by loc_ne ht) (by loc_ne ht) (by loc_ne ht)
  have n_b4 : ∀ t, (s.get t).loc ≠ .b4 := fun t ht => h ⟨t, ht⟩
  clear h
  by_cases h : ∃ t, (s.get t).loc = .c0
  · obtain ⟨t, ht⟩ := h
    have hlt := lt_of_loc (s := s) (t := t) (by loc_ne ht)
    exact prog_plain hc t (Step.c0 t hlt ht trivial) (by oth hlt) (by loc_ne ht) (by loc_ne ht) (by loc_ne ht)
  have n_c0 : ∀ t, (s.get t).loc ≠ .c0 := fun t ht => h ⟨t, ht⟩
  clear h
  by_cases h : ∃ t, (s.get t).loc = .d1
  · obtain ⟨t, ht⟩ := h
    have hlt := lt_of_loc (s := s) (t := t) (by loc_ne ht)
    exact prog_plain hc t (Step.d1 t hlt ht trivial) (by oth hlt) (by loc_ne ht) (by loc_ne ht) (by loc_ne ht)
  have n_d1 : ∀ t, (s.get t).loc ≠ .d1 := fun t ht => h ⟨t, ht⟩
  clear h
  by_cases h : ∃ t, (s.get t).loc = .g5
  · obtain ⟨t, ht⟩ := h
    have hlt := lt_of_loc (s := s) (t := t) (by loc_ne ht)
    exact prog_plain hc t (Step.g5 t hlt ht trivial) (by oth hlt) (by loc_ne ht) (by loc_ne ht) (by loc_ne ht)
  have n_g5 : ∀ t, (s.get t).loc ≠ .g5 := fun t ht => h ⟨t, ht⟩
  clear h
  by_cases h : ∃ t, (s.get t).loc = .d2
  · obtain ⟨t, ht⟩ := h
    have hlt := lt_of_loc (s := s) (t := t) (by loc_ne ht)
    by_cases hcond : (s.get t).exec = true
    · exact prog_plain hc t (Step.d2exec t hlt ht hcond) (by oth hlt) (by loc_ne ht) (by loc_ne ht) (by loc_ne ht)
    · exact prog_plain hc t (Step.d2plain t hlt ht hcond) (by oth hlt) (by loc_ne ht) (by loc_ne ht) (by loc_ne ht)
  have n_d2 : ∀ t, (s.get t).loc ≠ .d2 := fun t ht => h ⟨t, ht⟩
  clear h
  by_cases h : ∃ t, (s.get t).loc = .a7
  · obtain ⟨t, ht⟩ := h
    have hlt := lt_of_loc (s := s) (t := t) (by loc_ne ht)
    exact prog_plain hc t (Step.a7 t hlt ht trivial) (by oth hlt) (by loc_ne ht) (by loc_ne ht) (by loc_ne ht)
  have n_a7 : ∀ t, (s.get t).loc ≠ .a7 := fun t ht => h ⟨t, ht⟩
  clear h
  by_cases h : ∃ t, (s.get t).loc = .a1
  · obtain ⟨t, ht⟩ := h
    have hlt := lt_of_loc (s := s) (t := t) (by loc_ne ht)
    by_cases hcond : s.V = none
    · exact prog_plain hc t (Step.a1ok t hlt ht hcond) (by oth hlt) (by loc_ne ht) (by loc_ne ht) (by loc_ne ht)
    · exact prog_plain hc t (Step.a1fail t hlt ht hcond) (by oth hlt) (by loc_ne ht) (by loc_ne ht) (by loc_ne ht)
  have n_a1 : ∀ t, (s.get t).loc ≠ .a1 := fun t ht => h ⟨t, ht⟩
  clear h
  by_cases h : ∃ t, (s.get t).loc = .b2
  · obtain ⟨t, ht⟩ := h
    have hlt := lt_of_loc (s := s) (t := t) (by loc_ne ht)
    have hE : s.E = none := by
      cases hE : s.E with
      | none => rfl
      | some u =>
        exfalso
        have hu := (hc.lockE u).mp hE
        rcases holdsE_locs hu with h1 | h1 | h1 | h1 | h1 | h1
        · exact n_a1 u h1
        · exact n_a2 u h1
        · exact n_a7 u h1
        · exact n_b3 u h1
        · exact n_b4 u h1
        · have hut := hc.oneExec u t h1 (by rw [inExec_of_loc ht]; rfl)
          subst hut
          rw [holdsE_of_loc ht] at hu
          simp [Loc.eHold, Loc.gath] at hu
    exact prog_plain hc t (Step.b2 t hlt ht hE) (by oth hlt) (by loc_ne ht) (by loc_ne ht) (by loc_ne ht)
  have n_b2 : ∀ t, (s.get t).loc ≠ .b2 := fun t ht => h ⟨t, ht⟩
  clear h
  -- nobody holds the variable lock any more
  have hV : s.V = none := by
    cases hV : s.V with
    | none => rfl
    | some u =>
      exfalso
      rcases holdsV_locs ((hc.lockV u).mp hV) with h1 | h1 | h1 | h1 | h1 | h1 | h1 | h1 | h1
      · exact n_a2 u h1
      · exact n_a3 u h1
      · exact n_b2 u h1
      · exact n_b3 u h1
      · exact n_b4 u h1
      · exact n_c0 u h1
      · exact n_d1 u h1
      · exact n_d2 u h1
      · exact n_g5 u h1
  by_cases h : ∃ t, (s.get t).loc = .r
  · obtain ⟨t, ht⟩ := h
    have hlt := lt_of_loc (s := s) (t := t) (by loc_ne ht)
    obtain ⟨b, o, _, hres, _⟩ := hd.gathered t (by rw [hasRes_of_loc ht]; rfl)
    exact prog_plain hc t (Step.ret t hlt ht (by rw [hres]; rfl)) (by intro u hu; simp only [St.set, St.get, getD_set _ _ _ _ hlt, hu, if_false])
      (by loc_ne ht) (by loc_ne ht) (by loc_ne ht)
  have n_r : ∀ t, (s.get t).loc ≠ .r := fun t ht => h ⟨t, ht⟩
  clear h
  by_cases h : ∃ t, (s.get t).loc = .a8
  · obtain ⟨t, ht⟩ := h
    have hlt := lt_of_loc (s := s) (t := t) (by loc_ne ht)
    exact prog_plain hc t (Step.a8 t hlt ht trivial) (by oth hlt) (by loc_ne ht) (by loc_ne ht) (by loc_ne ht)
  have n_a8 : ∀ t, (s.get t).loc ≠ .a8 := fun t ht => h ⟨t, ht⟩
  clear h
  by_cases h : ∃ t, (s.get t).loc = .a4
  · obtain ⟨t, ht⟩ := h
    have hlt := lt_of_loc (s := s) (t := t) (by loc_ne ht)
    exact prog_plain hc t (Step.a4 t hlt ht trivial) (by oth hlt) (by loc_ne ht) (by loc_ne ht) (by loc_ne ht)
  have n_a4 : ∀ t, (s.get t).loc ≠ .a4 := fun t ht => h ⟨t, ht⟩
  clear h
  by_cases h : ∃ t, (s.get t).loc = .b0
  · obtain ⟨t, ht⟩ := h
    have hlt := lt_of_loc (s := s) (t := t) (by loc_ne ht)
    exact prog_plain hc t (Step.b0 t hlt ht trivial) (by oth hlt) (by loc_ne ht) (by loc_ne ht) (by loc_ne ht)
  have n_b0 : ∀ t, (s.get t).loc ≠ .b0 := fun t ht => h ⟨t, ht⟩
  clear h
  by_cases h : ∃ t, (s.get t).loc = .c1
  · obtain ⟨t, ht⟩ := h
    have hlt := lt_of_loc (s := s) (t := t) (by loc_ne ht)
    exact prog_plain hc t (Step.c1 t hlt ht trivial) (by oth hlt) (by loc_ne ht) (by loc_ne ht) (by loc_ne ht)
  have n_c1 : ∀ t, (s.get t).loc ≠ .c1 := fun t ht => h ⟨t, ht⟩
  clear h
  by_cases h : ∃ t, (s.get t).loc = .g1
  · obtain ⟨t, ht⟩ := h
    have hlt := lt_of_loc (s := s) (t := t) (by loc_ne ht)
    exact prog_plain hc t (Step.g1 t hlt ht trivial) (by oth hlt) (by loc_ne ht) (by loc_ne ht) (by loc_ne ht)
  have n_g1 : ∀ t, (s.get t).loc ≠ .g1 := fun t ht => h ⟨t, ht⟩
  clear h
  by_cases h : ∃ t, (s.get t).loc = .g6
  · obtain ⟨t, ht⟩ := h
    have hlt := lt_of_loc (s := s) (t := t) (by loc_ne ht)
    exact prog_plain hc t (Step.g6 t hlt ht trivial) (by oth hlt) (by loc_ne ht) (by loc_ne ht) (by loc_ne ht)
  have n_g6 : ∀ t, (s.get t).loc ≠ .g6 := fun t ht => h ⟨t, ht⟩
  clear h
  by_cases h : ∃ t, (s.get t).loc = .g7
  · obtain ⟨t, ht⟩ := h
    have hlt := lt_of_loc (s := s) (t := t) (by loc_ne ht)
    exact prog_plain hc t (Step.g7 t hlt ht trivial) (by oth hlt) (by loc_ne ht) (by loc_ne ht) (by loc_ne ht)
  have n_g7 : ∀ t, (s.get t).loc ≠ .g7 := fun t ht => h ⟨t, ht⟩
  clear h
  by_cases h : ∃ t, (s.get t).loc = .a9
  · obtain ⟨t, ht⟩ := h
    have hlt := lt_of_loc (s := s) (t := t) (by loc_ne ht)
    by_cases hcond : t ∈ s.ecw
    · exact prog_plain hc t (Step.a9timeout t hlt ht hcond) (by oth hlt) (by loc_ne ht) (by loc_ne ht) (by loc_ne ht)
    · exact prog_plain hc t (Step.a9 t hlt ht hcond) (by oth hlt) (by loc_ne ht) (by loc_ne ht) (by loc_ne ht)
  have n_a9 : ∀ t, (s.get t).loc ≠ .a9 := fun t ht => h ⟨t, ht⟩
  clear h
  by_cases h : ∃ t, (s.get t).loc = .g2
  · obtain ⟨t, ht⟩ := h
    have hlt := lt_of_loc (s := s) (t := t) (by loc_ne ht)
    by_cases hcond : t ∈ s.icw
    · exact prog_plain hc t (Step.g2timeout t hlt ht hcond) (by oth hlt) (by loc_ne ht) (by loc_ne ht) (by loc_ne ht)
    · exact prog_plain hc t (Step.g2 t hlt ht hcond) (by oth hlt) (by loc_ne ht) (by loc_ne ht) (by loc_ne ht)
  have n_g2 : ∀ t, (s.get t).loc ≠ .g2 := fun t ht => h ⟨t, ht⟩
  clear h
  by_cases h : ∃ t, (s.get t).loc = .g0
  · obtain ⟨t, ht⟩ := h
    have hlt := lt_of_loc (s := s) (t := t) (by loc_ne ht)
    by_cases hcond : s.tc > 0
    · exact prog_plain hc t (Step.g0wait t hlt ht hcond) (by oth hlt) (by loc_ne ht) (by loc_ne ht) (by loc_ne ht)
    · exact prog_plain hc t (Step.g0done t hlt ht hcond) (by oth hlt) (by loc_ne ht) (by loc_ne ht) (by loc_ne ht)
  have n_g0 : ∀ t, (s.get t).loc ≠ .g0 := fun t ht => h ⟨t, ht⟩
  clear h
  by_cases h : ∃ t, (s.get t).loc = .g4
  · obtain ⟨t, ht⟩ := h
    have hlt := lt_of_loc (s := s) (t := t) (by loc_ne ht)
    exact prog_plain hc t (Step.g4 t hlt ht hV) (by oth hlt) (by loc_ne ht) (by loc_ne ht) (by loc_ne ht)
  have n_g4 : ∀ t, (s.get t).loc ≠ .g4 := fun t ht => h ⟨t, ht⟩
  clear h
  by_cases h : ∃ t, (s.get t).loc = .d0
  · obtain ⟨t, ht⟩ := h
    have hlt := lt_of_loc (s := s) (t := t) (by loc_ne ht)
    exact prog_plain hc t (Step.d0 t hlt ht hV) (by oth hlt) (by loc_ne ht) (by loc_ne ht) (by loc_ne ht)
  have n_d0 : ∀ t, (s.get t).loc ≠ .d0 := fun t ht => h ⟨t, ht⟩
  clear h
  by_cases h : ∃ t, (s.get t).loc = .b1
  · obtain ⟨t, ht⟩ := h
    have hlt := lt_of_loc (s := s) (t := t) (by loc_ne ht)
    by_cases hlast : s.ec + 1 = s.tc
    · have hs := Step.b1exec t hlt ht ⟨hV, hlast⟩
      exact ⟨_, hs, mu_of_step hc hs
        (sideA0 t (by intro u hu; simp only [St.set, St.get, getD_set _ _ _ _ hlt, hu, if_false]) (by loc_ne ht))
        (fun _ _ _ => n_a1)
        (sideG3 t (by intro u hu; simp only [St.set, St.get, getD_set _ _ _ _ hlt, hu, if_false]) (by loc_ne ht))⟩
    · have hs := Step.b1wait t hlt ht ⟨hV, hlast⟩
      exact ⟨_, hs, mu_of_step hc hs
        (sideA0 t (by intro u hu; simp only [St.set, St.get, getD_set _ _ _ _ hlt, hu, if_false]) (by loc_ne ht))
        (fun _ _ _ => n_a1)
        (sideG3 t (by intro u hu; simp only [St.set, St.get, getD_set _ _ _ _ hlt, hu, if_false]) (by loc_ne ht))⟩
  have n_b1 : ∀ t, (s.get t).loc ≠ .b1 := fun t ht => h ⟨t, ht⟩
  clear h
  -- a notified waiter
  by_cases h : ∃ t, (s.get t).loc = .c2 ∧ t ∉ s.icw
  · obtain ⟨t, ht, hw⟩ := h
    have hlt := lt_of_loc (s := s) (t := t) (by loc_ne ht)
    exact prog_plain hc t (Step.c2 t hlt ht hw) (by oth hlt) (by loc_ne ht) (by loc_ne ht) (by loc_ne ht)
  have n_c2 : ∀ t, (s.get t).loc = .c2 → t ∈ s.icw := by
    intro t ht
    cases hm : decide (t ∈ s.icw) with
    | true => exact of_decide_eq_true hm
    | false => exact absurd ⟨t, ht, of_decide_eq_false hm⟩ h
  clear h
  -- the executor's drain loop
  by_cases h : ∃ t, (s.get t).loc = .g3
  · obtain ⟨t, ht⟩ := h
    have hlt := lt_of_loc (s := s) (t := t) (by loc_ne ht)
    have hs := Step.g3 t hlt ht trivial
    have hget : ∀ u, u ≠ t → ({ s with icw := s.icw.tail }.at t .g0).get u = s.get u := by oth hlt
    have hside : s.tc = 0 ∨ ∃ w rest, s.icw = w :: rest ∧ (s.get w).loc = .c2 ∧ w ≠ t := by
      by_cases htc : s.tc = 0
      · exact Or.inl htc
      · right
        cases hicw : s.icw with
        | cons w rest =>
          refine ⟨w, rest, rfl, ?_, ?_⟩
          · rcases hc.icwLoc w (by rw [hicw]; exact List.mem_cons_self) with h1 | h1
            · exact h1
            · exact absurd h1 (n_g2 w)
          · intro e
            rcases hc.icwLoc w (by rw [hicw]; exact List.mem_cons_self) with h1 | h1
            · rw [e, ht] at h1; cases h1
            · exact absurd h1 (n_g2 w)
        | nil =>
          exfalso
          -- tc > 0, so some member exists; every member location is exhausted
          have hpos : 0 < s.th.countP TS.isMember := by rw [← hc.tcCount]; omega
          obtain ⟨x, hx, hm⟩ := List.countP_pos_iff.mp hpos
          obtain ⟨i, hi, rfl⟩ := List.getElem_of_mem hx
          rw [← get_eq_getElem s i hi] at hm
          rcases member_locs hm with h1 | h1 | h1 | h1 | h1 | h1 | h1 | h1 | h1 | h1 | h1 | h1
          · exact n_a2 i h1
          · exact n_a3 i h1
          · exact n_a4 i h1
          · exact n_b0 i h1
          · exact n_b1 i h1
          · exact n_b2 i h1
          · exact n_b3 i h1
          · exact n_b4 i h1
          · exact n_c0 i h1
          · exact n_c1 i h1
          · have := n_c2 i h1; rw [hicw] at this; cases this
          · exact n_d0 i h1
    exact ⟨_, hs, mu_of_step hc hs (sideA0 t hget (by loc_ne ht)) (sideB1 t hget (by loc_ne ht))
      (fun t' ha hb => by
        by_cases e : t' = t
        · subst e; exact hside
        · rw [hget t' e, ha] at hb; cases hb)⟩
  have n_g3 : ∀ t, (s.get t).loc ≠ .g3 := fun t ht => h ⟨t, ht⟩
  clear h
  -- a caller about to take the entry lock
  by_cases h : ∃ t, (s.get t).loc = .a0
  · obtain ⟨t, ht⟩ := h
    have hlt := lt_of_loc (s := s) (t := t) (by loc_ne ht)
    have hE : s.E = none := by
      cases hE : s.E with
      | none => rfl
      | some u =>
        exfalso
        rcases holdsE_locs ((hc.lockE u).mp hE) with h1 | h1 | h1 | h1 | h1 | h1
        · exact n_a1 u h1
        · exact n_a2 u h1
        · exact n_a7 u h1
        · exact n_b3 u h1
        · exact n_b4 u h1
        · rcases inExec_locs h1 with h2 | h2 | h2 | h2 | h2 | h2 | h2 | h2 | h2 | h2 | h2 | h2 | h2
          · exact n_b2 u h2
          · exact n_b3 u h2
          · exact n_b4 u h2
          · exact n_d0 u h2
          · exact n_d1 u h2
          · exact n_d2 u h2
          · exact n_g0 u h2
          · exact n_g1 u h2
          · exact n_g2 u h2
          · exact n_g3 u h2
          · exact n_g4 u h2
          · exact n_g5 u h2
          · exact n_g6 u h2
    have hs := Step.a0 t hlt ht hE
    have hget : ∀ u, u ≠ t → ({ s with E := some t }.at t .a1).get u = s.get u := by oth hlt
    exact ⟨_, hs, mu_of_step hc hs (fun _ _ _ => hV) (sideB1 t hget (by loc_ne ht)) (sideG3 t hget (by loc_ne ht))⟩
  have n_a0 : ∀ t, (s.get t).loc ≠ .a0 := fun t ht => h ⟨t, ht⟩
  clear h
  -- a queued call
  by_cases h : ∃ t, (s.get t).loc = .idle ∧ (s.get t).todo ≠ []
  · obtain ⟨t, ht, htd⟩ := h
    have hlt := lt_of_todo (s := s) (t := t) htd
    exact prog_plain hc t (Step.start t hlt ht htd) (by intro u hu; simp only [St.set, St.get, getD_set _ _ _ _ hlt, hu, if_false])
      (by loc_ne ht) (by loc_ne ht) (by loc_ne ht)
  have n_start : ∀ t, (s.get t).loc = .idle → (s.get t).todo = [] := by
    intro t ht
    cases htd : (s.get t).todo with
    | nil => rfl
    | cons a l => exact absurd ⟨t, ht, by rw [htd]; simp⟩ h
  clear h
  -- everything else is exhausted: every thread is idle with nothing queued, or waits at C2
  have hall : ∀ t, (s.get t).loc = .idle ∨ (s.get t).loc = .c2 := by
    intro t
    cases hl : (s.get t).loc
    all_goals first
      | (left; rfl)
      | (right; rfl)
      | (exfalso; first
          | exact n_a0 t hl | exact n_a1 t hl | exact n_a2 t hl | exact n_a3 t hl | exact n_a4 t hl | exact n_a7 t hl
          | exact n_a8 t hl | exact n_a9 t hl | exact n_b0 t hl | exact n_b1 t hl | exact n_b2 t hl | exact n_b3 t hl
          | exact n_b4 t hl | exact n_c0 t hl | exact n_c1 t hl | exact n_d0 t hl | exact n_d1 t hl | exact n_d2 t hl
          | exact n_g0 t hl | exact n_g1 t hl | exact n_g2 t hl | exact n_g3 t hl | exact n_g4 t hl | exact n_g5 t hl
          | exact n_g6 t hl | exact n_g7 t hl | exact n_r t hl)
  by_cases h : ∃ t, (s.get t).loc = .c2
  · exfalso
    obtain ⟨t, ht⟩ := h
    have hopen : ∀ u, (s.get u).inExec = false := by
      intro u
      rcases hall u with h1 | h1 <;> rw [inExec_of_loc h1]
      · simp [Loc.execOnly, Loc.gath]
      · simp [Loc.execOnly, Loc.gath]
    obtain ⟨_, hg0, har⟩ := hc.openPh hopen
    have hpos := member_pos hc t (by rw [ht]; rfl)
    have heq : s.th.countP TS.isMember = s.th.countP TS.isArrived := by
      apply List.countP_congr
      intro x hx
      obtain ⟨i, hi, rfl⟩ := List.getElem_of_mem hx
      rw [← get_eq_getElem s i hi]
      rcases hall i with h1 | h1 <;> simp [TS.isMember, TS.isArrived, h1, Loc.member, Loc.arrived]
    have h1 := hc.tcCount
    have h2 := hc.ecCount
    omega
  · exfalso
    apply hnq
    intro t
    rcases hall t with h1 | h1
    · exact ⟨h1, n_start t h1⟩
    · exact absurd ⟨t, h1⟩ h

/-- finite executions of the executable transition function -/
inductive Run : St → St → Prop
  | refl (s : St) : Run s s
  | cons {s s1 s' : St} (a : Act) : step s a = some s1 → Run s1 s' → Run s s'

/-- from every state satisfying the invariants some finite schedule leads to a quiescent state -/
theorem can_complete (s : St) (hc : CInv s) (hd : DInv s) : ∃ s', Run s s' ∧ Quiescent s' := by
  by_cases hq : Quiescent s
  · exact ⟨s, .refl s, hq⟩
  · obtain ⟨s1, hs, hmu⟩ := progress hc hd hq
    obtain ⟨a, ha⟩ := step_complete s s1 hs
    obtain ⟨s', hrun, hq'⟩ := can_complete s1 (cinv_step hc hs) (dinv_step hc hd hs)
    exact ⟨s', .cons a ha hrun, hq'⟩
termination_by (callsLeft s, phi s)
decreasing_by
  rcases hmu with h | ⟨h1, h2⟩
  · exact Prod.Lex.left _ _ h
  · rw [h1]; exact Prod.Lex.right _ h2

/-- C08 (`can_always_complete`): no reachable state of the batching runner is doomed. From every reachable state —
    any number of threads and calls, any interleaving so far, any pattern of failing batches — there is a finite
    continuation after which every call has returned (or raised) and the wrapper is back in its initial shared
    state, ready for new batches. -/
theorem can_always_complete (th0 : List TS) (h0 : ∀ x ∈ th0, x.loc = .idle) {s : St} (hr : Reachable th0 s) :
    ∃ s', Run s s' ∧ Quiescent s' := by
  obtain ⟨hc, hd⟩ := dinv_reachable th0 h0 hr
  exact can_complete s hc hd

end Runner
