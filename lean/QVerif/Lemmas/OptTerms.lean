import QVerif.Lemmas.EnergyDecodedTotal

/-! The optimisation terms on decoded states (C01/C02). -/

namespace QVerif.Encoder

/-- `Σ_jobs (n+1)^(end of the job's last operation)` of the decoded schedule -/
def endSum (ovs : List (List OpVar)) (bits : Bits) : Nat :=
  (ovs.map (fun row => match row.getLast? with
    | none => 0
    | some x => (ovs.length + 1) ^ (startOf x bits + x.op.dur))).sum

def maxOptNat (ovs : List (List OpVar)) (limit : Nat) : Nat := ovs.length * (ovs.length + 1) ^ limit

theorem sum_map_mul_left (c : Rat) {α} (l : List α) (f : α → Rat) : (l.map (fun x => c * f x)).sum = c * (l.map f).sum := by
  induction l with
  | nil => simp
  | cons a t ih => simp only [List.map_cons, List.sum_cons, ih]; grind

theorem natCast_sum {α} (l : List α) (f : α → Nat) : (((l.map f).sum : Nat) : Rat) = (l.map (fun x => ((f x : Nat) : Rat))).sum := by
  induction l with
  | nil => simp
  | cons a t ih => simp only [List.map_cons, List.sum_cons, Rat.natCast_add, ih]

/-- **makespan term of a decoded state** -/
theorem makespanTerm_decoded (ovs : List (List OpVar)) (limit : Nat) (bits : Bits) (hd : AllDecoded ovs bits) :
    makespanTerm ovs limit bits = (1 / ((maxOptNat ovs limit : Nat) : Rat)) * ((endSum ovs bits : Nat) : Rat) := by
  unfold makespanTerm endSum maxOptNat
  simp only
  rw [natCast_sum, ← sum_map_mul_left]
  congr 1
  apply List.map_congr_left
  intro row hrow
  cases hl : row.getLast? with
  | none => simp
  | some x =>
    simp only
    have hx : x ∈ ovs.flatten := List.mem_flatten.mpr ⟨row, hrow, List.mem_of_getLast? hl⟩
    obtain ⟨k, hk⟩ := hd x hx
    have := sum_values_decoded hk (fun s => (1 / ((ovs.length * (ovs.length + 1) ^ limit : Nat) : Rat)) *
      (((ovs.length + 1) ^ (s + x.op.dur) : Nat) : Rat))
    rw [startOf_decoded hk]
    rw [← this]

theorem endSum_le (ovs : List (List OpVar)) (limit : Nat) (bits : Bits) (hd : AllDecoded ovs bits)
    (hfit : ∀ x ∈ ovs.flatten, x.var.lo + x.var.nq + x.op.dur ≤ limit) : endSum ovs bits ≤ maxOptNat ovs limit := by
  unfold endSum maxOptNat
  have : ∀ (rows : List (List OpVar)), (∀ r ∈ rows, r ∈ ovs) →
      (rows.map (fun row => match row.getLast? with
        | none => 0
        | some x => (ovs.length + 1) ^ (startOf x bits + x.op.dur))).sum ≤ rows.length * (ovs.length + 1) ^ limit := by
    intro rows
    induction rows with
    | nil => intro _; simp
    | cons r t ih =>
      intro hsub
      simp only [List.map_cons, List.sum_cons, List.length_cons]
      have h1 := ih (fun r' hr' => hsub r' (List.mem_cons_of_mem _ hr'))
      have h2 : (match r.getLast? with
          | none => 0
          | some x => (ovs.length + 1) ^ (startOf x bits + x.op.dur)) ≤ (ovs.length + 1) ^ limit := by
        cases hl : r.getLast? with
        | none => simp
        | some x =>
          simp only
          have hx : x ∈ ovs.flatten := List.mem_flatten.mpr ⟨r, hsub r (by simp), List.mem_of_getLast? hl⟩
          obtain ⟨k, hk⟩ := hd x hx
          rw [startOf_decoded hk]
          apply Nat.pow_le_pow_right (by omega)
          have := hfit x hx; have := hk.hk; omega
      rw [Nat.add_mul]; omega
  exact this ovs (fun r hr => hr)

theorem makespanTerm_bounds (ovs : List (List OpVar)) (limit : Nat) (bits : Bits) (hd : AllDecoded ovs bits)
    (hfit : ∀ x ∈ ovs.flatten, x.var.lo + x.var.nq + x.op.dur ≤ limit) :
    0 ≤ makespanTerm ovs limit bits ∧ makespanTerm ovs limit bits ≤ 1 := by
  rw [makespanTerm_decoded ovs limit bits hd]
  have hle := endSum_le ovs limit bits hd hfit
  have hE : (0 : Rat) ≤ ((endSum ovs bits : Nat) : Rat) := Rat.natCast_nonneg
  have hM : (0 : Rat) ≤ ((maxOptNat ovs limit : Nat) : Rat) := Rat.natCast_nonneg
  have hEM : ((endSum ovs bits : Nat) : Rat) ≤ ((maxOptNat ovs limit : Nat) : Rat) := Rat.natCast_le_natCast.mpr hle
  by_cases h0 : maxOptNat ovs limit = 0
  · have : endSum ovs bits = 0 := by omega
    rw [this]
    have e : ((0 : Nat) : Rat) = 0 := rfl
    rw [e, Rat.mul_zero]
    exact ⟨Rat.le_refl, by decide +kernel⟩
  · have hpos : (0 : Rat) < ((maxOptNat ovs limit : Nat) : Rat) := Rat.natCast_pos.mpr (by omega)
    have hinv : (0 : Rat) < (((maxOptNat ovs limit : Nat) : Rat))⁻¹ := Rat.inv_pos.mpr hpos
    rw [Rat.div_def, Rat.one_mul]
    constructor
    · exact Rat.mul_nonneg (by grind) hE
    · have := Rat.mul_le_mul_of_nonneg_left hEM (by grind : 0 ≤ (((maxOptNat ovs limit : Nat) : Rat))⁻¹)
      have e : (((maxOptNat ovs limit : Nat) : Rat))⁻¹ * ((maxOptNat ovs limit : Nat) : Rat) = 1 := by
        rw [Rat.mul_comm]; exact Rat.mul_inv_cancel _ (by grind)
      grind

theorem nat_le_sum_of_mem : ∀ (l : List Nat) (a : Nat), a ∈ l → a ≤ l.sum
  | [], _, h => by simp at h
  | b :: t, a, h => by
      rcases List.mem_cons.mp h with rfl | h
      · simp
      · have := nat_le_sum_of_mem t a h; simp only [List.sum_cons]; omega

theorem endSum_pos (ovs : List (List OpVar)) (bits : Bits) (hne : ∃ row ∈ ovs, row ≠ []) : 0 < endSum ovs bits := by
  obtain ⟨row, hrow, hr⟩ := hne
  unfold endSum
  have hmem : (match row.getLast? with
      | none => 0
      | some x => (ovs.length + 1) ^ (startOf x bits + x.op.dur)) ∈
      ovs.map (fun row => match row.getLast? with
        | none => 0
        | some x => (ovs.length + 1) ^ (startOf x bits + x.op.dur)) := List.mem_map.mpr ⟨row, hrow, rfl⟩
  have hle := nat_le_sum_of_mem _ _ hmem
  have hpos : 0 < (match row.getLast? with
      | none => 0
      | some x => (ovs.length + 1) ^ (startOf x bits + x.op.dur)) := by
    cases hl : row.getLast? with
    | none => exact absurd (List.getLast?_eq_none_iff.mp hl) hr
    | some x => exact Nat.pow_pos (by omega)
  omega

/-- the makespan term of a decoded state is strictly positive as soon as there is a job with an operation -/
theorem makespanTerm_pos (ovs : List (List OpVar)) (limit : Nat) (bits : Bits) (hd : AllDecoded ovs bits)
    (hne : ∃ row ∈ ovs, row ≠ []) : 0 < makespanTerm ovs limit bits := by
  rw [makespanTerm_decoded ovs limit bits hd]
  have hE := endSum_pos ovs bits hne
  have hlen : 0 < ovs.length := by
    obtain ⟨row, hrow, _⟩ := hne
    exact List.length_pos_of_mem hrow
  have hM : 0 < maxOptNat ovs limit := by
    unfold maxOptNat
    exact Nat.mul_pos hlen (Nat.pow_pos (by omega))
  have h1 : (0 : Rat) < ((maxOptNat ovs limit : Nat) : Rat) := Rat.natCast_pos.mpr hM
  have h2 : (0 : Rat) < ((endSum ovs bits : Nat) : Rat) := Rat.natCast_pos.mpr hE
  rw [Rat.div_def, Rat.one_mul]
  exact Rat.mul_pos (Rat.inv_pos.mpr h1) h2

/-- Σ of the decoded value indices -/
def idxSum (ovs : List (List OpVar)) (bits : Bits) : Nat := (ovs.flatten.map (fun x => startOf x bits - x.var.lo)).sum

def zNat (ovs : List (List OpVar)) : Nat := (ovs.flatten.map (fun x => x.var.nvals - 1)).sum

/-- **early-start term of a decoded state** -/
theorem earlyStartTerm_decoded (ovs : List (List OpVar)) (bits : Bits) (hd : AllDecoded ovs bits) :
    earlyStartTerm ovs bits = (1 / ((zNat ovs : Nat) : Rat)) * ((idxSum ovs bits : Nat) : Rat) := by
  unfold earlyStartTerm idxSum zNat
  simp only
  generalize (((ovs.flatten.map (fun x => x.var.nvals - 1)).sum : Nat) : Rat) = z
  rw [natCast_sum, ← sum_map_mul_left]
  congr 1
  apply List.map_congr_left
  intro x hx
  obtain ⟨k, hk⟩ := hd x hx
  rw [sum_range_eq_sumTo, startOf_decoded hk]
  have e : x.var.lo + k - x.var.lo = k := by omega
  rw [e]
  have : sumTo (fun (i : Nat) => if i = 0 then (0 : Rat) else
      (1 / z) * ((i : Nat) : Rat) * valueTerm x.var bits i) x.var.nvals =
      sumTo (fun i => if i = k then (if i = 0 then (0 : Rat) else
        (1 / z) * ((i : Nat) : Rat)) else 0) x.var.nvals := by
    apply sumTo_congr
    intro i hi
    rw [valueTerm_decoded x.var bits k hk.hk hk.hlen hk.hw i (by have := hk.hn; omega)]
    by_cases h0 : i = 0 <;> by_cases hik : i = k <;> simp [h0, hik]
  rw [this, sumTo_indicator _ _ _ (by have := hk.hn; have := hk.hk; omega)]
  by_cases h0 : k = 0
  · simp [h0]
  · simp [h0]

theorem idxSum_le (ovs : List (List OpVar)) (bits : Bits) (hd : AllDecoded ovs bits) : idxSum ovs bits ≤ zNat ovs := by
  unfold idxSum zNat
  have : ∀ (l : List OpVar), (∀ x ∈ l, x ∈ ovs.flatten) →
      (l.map (fun x => startOf x bits - x.var.lo)).sum ≤ (l.map (fun x => x.var.nvals - 1)).sum := by
    intro l
    induction l with
    | nil => intro _; simp
    | cons a t ih =>
      intro hsub
      simp only [List.map_cons, List.sum_cons]
      have := ih (fun x hx => hsub x (List.mem_cons_of_mem _ hx))
      obtain ⟨k, hk⟩ := hd a (hsub a (by simp))
      rw [startOf_decoded hk]
      have := hk.hk; have := hk.hn
      omega
  exact this _ (fun x hx => hx)

theorem earlyStartTerm_bounds (ovs : List (List OpVar)) (bits : Bits) (hd : AllDecoded ovs bits) :
    0 ≤ earlyStartTerm ovs bits ∧ earlyStartTerm ovs bits ≤ 1 := by
  rw [earlyStartTerm_decoded ovs bits hd]
  have hle := idxSum_le ovs bits hd
  have hE : (0 : Rat) ≤ ((idxSum ovs bits : Nat) : Rat) := Rat.natCast_nonneg
  have hEM : ((idxSum ovs bits : Nat) : Rat) ≤ ((zNat ovs : Nat) : Rat) := Rat.natCast_le_natCast.mpr hle
  by_cases h0 : zNat ovs = 0
  · have : idxSum ovs bits = 0 := by omega
    rw [this]
    have e : ((0 : Nat) : Rat) = 0 := rfl
    rw [e, Rat.mul_zero]
    exact ⟨Rat.le_refl, by decide +kernel⟩
  · have hpos : (0 : Rat) < ((zNat ovs : Nat) : Rat) := Rat.natCast_pos.mpr (by omega)
    have hinv : (0 : Rat) < (((zNat ovs : Nat) : Rat))⁻¹ := Rat.inv_pos.mpr hpos
    rw [Rat.div_def, Rat.one_mul]
    constructor
    · exact Rat.mul_nonneg (by grind) hE
    · have := Rat.mul_le_mul_of_nonneg_left hEM (by grind : 0 ≤ (((zNat ovs : Nat) : Rat))⁻¹)
      have e : (((zNat ovs : Nat) : Rat))⁻¹ * ((zNat ovs : Nat) : Rat) = 1 := by
        rw [Rat.mul_comm]; exact Rat.mul_inv_cancel _ (by grind)
      grind

end QVerif.Encoder
