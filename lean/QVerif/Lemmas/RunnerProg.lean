import QVerif.Lemmas.RunnerData
open Runner
namespace Runner

/-! ### progress measure (DESIGN Appendix A) -/

def rank (s : St) (u : Nat) : Nat :=
  match (s.get u).loc with
  | .idle => if (s.get u).todo.isEmpty then 0 else 60
  | .a0 => 59
  | .a1 => if s.V = none then 58 else 70
  | .a7 => 69 | .a8 => 68
  | .a9 => if u ∈ s.ecw then 67 else 66
  | .a2 => 57 | .a3 => 56 | .a4 => 55 | .b0 => 54 | .b1 => 53
  | .b2 => 52 | .b3 => 51 | .b4 => 50
  | .c0 => 52 | .c1 => 51
  | .c2 => if u ∈ s.icw then 50 else 41
  | .d0 => 40 | .d1 => 39 | .d2 => 38
  | .g0 => if s.tc > 0 then 36 else 30
  | .g1 => 35 | .g2 => 34 | .g3 => 33
  | .g4 => 20 | .g5 => 19 | .g6 => 18 | .g7 => 17
  | .r => 1

def sumUpTo (f : Nat → Nat) : Nat → Nat
  | 0 => 0
  | n + 1 => sumUpTo f n + f n

def phi (s : St) : Nat := sumUpTo (rank s) s.th.length

def callW (x : TS) : Nat := x.todo.length + (if x.loc = .idle then 0 else 1)
def callsLeft (s : St) : Nat := sumUpTo (fun u => callW (s.get u)) s.th.length

/-- lexicographic decrease of (callsLeft, phi) -/
def muLt (s' s : St) : Prop := callsLeft s' < callsLeft s ∨ (callsLeft s' = callsLeft s ∧ phi s' < phi s)

theorem sumUpTo_le {f g : Nat → Nat} {n : Nat} (h : ∀ u, u < n → f u ≤ g u) : sumUpTo f n ≤ sumUpTo g n := by
  induction n with
  | zero => simp [sumUpTo]
  | succ k ih =>
    simp only [sumUpTo]
    have := ih (fun u hu => h u (by omega))
    have := h k (by omega)
    omega

/-- strict decrease at one index `t`, no increase elsewhere -/
theorem sumUpTo_lt {f g : Nat → Nat} {n t : Nat} (ht : t < n) (hlt : f t < g t)
    (h : ∀ u, u < n → u ≠ t → f u ≤ g u) : sumUpTo f n < sumUpTo g n := by
  induction n with
  | zero => omega
  | succ k ih =>
    simp only [sumUpTo]
    by_cases hk : t = k
    · subst hk
      have := sumUpTo_le (f := f) (g := g) (n := t) (fun u hu => h u (by omega) (by omega))
      omega
    · have := ih (by omega) (fun u hu hne => h u (by omega) hne)
      have := h k (by omega) (fun e => hk e.symm)
      omega

/-- increase by at most `c` at `t`, decrease by at least `c + 1` at `w`, no increase elsewhere -/
theorem sumUpTo_lt_comp {f g : Nat → Nat} {n t w c : Nat} (ht : t < n) (hw : w < n) (htw : t ≠ w)
    (h1 : f t ≤ g t + c) (h2 : f w + c + 1 ≤ g w)
    (h : ∀ u, u < n → u ≠ t → u ≠ w → f u ≤ g u) : sumUpTo f n < sumUpTo g n := by
  have key : ∀ m, m ≤ n →
      sumUpTo f m + (if t < m then 0 else c) + (if w < m then c + 1 else 0) ≤ sumUpTo g m + c := by
    intro m
    induction m with
    | zero => intro _; simp [sumUpTo]
    | succ k ih =>
      intro hk
      have ih' := ih (by omega)
      simp only [sumUpTo]
      by_cases hkt : k = t
      · subst hkt
        grind
      · by_cases hkw : k = w
        · subst hkw
          grind
        · have := h k (by omega) hkt hkw
          grind
  have := key n (Nat.le_refl n)
  simp only [ht, hw, if_true] at this
  omega


/-! ### effect of a step on the measure -/

theorem rank_other_le (s s' : St) (u : Nat) (hget : s'.get u = s.get u)
    (hV : (s.get u).loc = .a1 → s.V = none → s'.V = none)
    (htc : (s.get u).loc = .g0 → s'.tc > 0 → s.tc > 0)
    (hi : (s.get u).loc = .c2 → u ∈ s'.icw → u ∈ s.icw)
    (he : (s.get u).loc = .a9 → u ∈ s'.ecw → u ∈ s.ecw) : rank s' u ≤ rank s u := by
  unfold rank
  rw [hget]
  cases hl : (s.get u).loc <;> simp only [hl] at * <;> grind

theorem holdsE_unique {s : St} (hc : CInv s) (a b : Nat) (ha : (s.get a).holdsE = true) (hb : (s.get b).holdsE = true) :
    a = b := by
  have h1 := (hc.lockE a).mpr ha
  have h2 := (hc.lockE b).mpr hb
  simp_all

theorem sumUpTo_congr {f g : Nat → Nat} {n : Nat} (h : ∀ u, u < n → f u = g u) : sumUpTo f n = sumUpTo g n := by
  induction n with
  | zero => rfl
  | succ k ih => simp only [sumUpTo]; rw [ih (fun u hu => h u (by omega)), h k (by omega)]

/-- callsLeft after updating thread `t` -/
theorem callsLeft_update (s s' : St) (t : Nat) (hlt : t < s.th.length) (hlen : s'.th.length = s.th.length)
    (hoth : ∀ u, u ≠ t → s'.get u = s.get u) :
    (callW (s'.get t) = callW (s.get t) → callsLeft s' = callsLeft s) ∧
    (callW (s'.get t) < callW (s.get t) → callsLeft s' < callsLeft s) := by
  unfold callsLeft
  rw [hlen]
  constructor
  · intro h
    apply sumUpTo_congr
    intro u _
    by_cases hu : u = t
    · rw [hu, h]
    · rw [hoth u hu]
  · intro h
    apply sumUpTo_lt hlt h
    intro u _ hu
    rw [hoth u hu]; exact Nat.le_refl _


theorem inOut_holdsE {x : TS} (h : x.inOut = true) : x.holdsE = true := by
  obtain ⟨l, p, i, e, r, t, o⟩ := x
  cases l <;> cases e <;> simp_all [Loc.execOnly, Loc.gath, Loc.outReg, Loc.eHold]

theorem noA1_of_outcome {s : St} (hc : CInv s) (ho : s.outcomeSet = true) : ∀ u, (s.get u).loc ≠ .a1 := by
  intro u hu
  obtain ⟨w, hw⟩ := hc.outcome.mp ho
  have huw := holdsE_unique hc u w (by rw [holdsE_of_loc hu]; rfl) (inOut_holdsE hw)
  subst huw
  rw [inOut_of_loc hu] at hw
  simp [Loc.execOnly, Loc.gath, Loc.outReg] at hw

theorem noA1_of_holder {s : St} (hc : CInv s) (w : Nat) (hw : (s.get w).holdsE = true) :
    ∀ u, u ≠ w → (s.get u).loc ≠ .a1 := by
  intro u huw hu
  exact huw (holdsE_unique hc u w (by rw [holdsE_of_loc hu]; rfl) hw)

theorem noG0_of_holder {s : St} (hc : CInv s) (w : Nat) (hw : (s.get w).holdsE = true) :
    ∀ u, u ≠ w → (s.get u).loc ≠ .g0 := by
  intro u huw hu
  exact huw (holdsE_unique hc u w (by rw [holdsE_of_loc hu]; rfl) hw)

/-- a step that only rewrites thread `t` (plus globals) decreases the measure if `t`'s own rank drops and the
    global changes do not raise anybody else's rank -/
theorem mu_local (s s' : St) (t : Nat) (hlt : t < s.th.length) (hlen : s'.th.length = s.th.length)
    (hoth : ∀ u, u ≠ t → s'.get u = s.get u)
    (hcall : callW (s'.get t) = callW (s.get t))
    (hown : rank s' t < rank s t)
    (hV : ∀ u, u ≠ t → (s.get u).loc = .a1 → s.V = none → s'.V = none)
    (htc : ∀ u, u ≠ t → (s.get u).loc = .g0 → s'.tc > 0 → s.tc > 0)
    (hi : ∀ u, u ≠ t → (s.get u).loc = .c2 → u ∈ s'.icw → u ∈ s.icw)
    (he : ∀ u, u ≠ t → (s.get u).loc = .a9 → u ∈ s'.ecw → u ∈ s.ecw) : muLt s' s := by
  right
  refine ⟨(callsLeft_update s s' t hlt hlen hoth).1 hcall, ?_⟩
  unfold phi
  rw [hlen]
  apply sumUpTo_lt hlt hown
  intro u _ hu
  exact rank_other_le s s' u (hoth u hu) (hV u hu) (htc u hu) (hi u hu) (he u hu)


set_option maxHeartbeats 1000000 in
theorem mu_of_step {s s' : St} (hc : CInv s) (hs : Step s s')
    (hA0 : ∀ t, (s.get t).loc = .a0 → (s'.get t).loc = .a1 → s.V = none)
    (hB1 : ∀ t, (s.get t).loc = .b1 → (s'.get t).loc ≠ .b1 → ∀ u, (s.get u).loc ≠ .a1)
    (hG3 : ∀ t, (s.get t).loc = .g3 → (s'.get t).loc = .g0 →
      s.tc = 0 ∨ ∃ w rest, s.icw = w :: rest ∧ (s.get w).loc = .c2 ∧ w ≠ t) :
    muLt s' s := by
  cases hs
  case ret t hlt hloc hg =>
    have hloc' : (s.th.getD t {}).loc = _ := hloc
    left
    refine (callsLeft_update s _ t hlt (by simp [St.set])
      (fun u hu => by simp only [St.set, St.get, getD_set _ _ _ _ hlt, hu, if_false])).2 ?_
    simp only [St.set, St.get, getD_set _ _ _ _ hlt, if_true, callW, hloc']
    simp
  case start t hlt hloc hg =>
    have hloc' : (s.th.getD t {}).loc = _ := hloc
    have hg' : (s.th.getD t {}).todo ≠ [] := hg
    refine mu_local s _ t hlt (by simp [St.set])
      (fun u hu => by simp only [St.set, St.get, getD_set _ _ _ _ hlt, hu, if_false]) ?_ ?_ ?_ ?_ ?_ ?_
    · simp only [St.set, St.get, getD_set _ _ _ _ hlt, if_true, callW, hloc']
      cases htd : (s.th.getD t {}).todo with
      | nil => exact absurd htd hg'
      | cons a l => simp
    · unfold rank
      simp only [St.set, St.get, getD_set _ _ _ _ hlt, if_true, hloc']
      have : (s.th.getD t {}).todo.isEmpty = false := by
        cases htd : (s.th.getD t {}).todo with
        | nil => exact absurd htd hg'
        | cons a l => rfl
      simp only [this, Bool.false_eq_true, if_false]; decide
    all_goals (intro u hu h1 h2; exact h2)
  case a0 t hlt hloc hg =>
    have hloc' : (s.th.getD t {}).loc = _ := hloc
    have hV : s.V = none := hA0 t hloc (by simp only [St.at, St.set, St.get, getD_set _ _ _ _ hlt, if_true])
    refine mu_local s _ t hlt (by simp [St.at, St.set])
      (fun u hu => by simp only [St.at, St.set, St.get, getD_set _ _ _ _ hlt, hu, if_false]) ?_ ?_ ?_ ?_ ?_ ?_
    · simp only [St.at, St.set, St.get, getD_set _ _ _ _ hlt, if_true, callW, hloc']
      simp
    · unfold rank
      simp only [St.at, St.set, St.get, getD_set _ _ _ _ hlt, if_true, hloc']
      simp [hV]
    all_goals (intro u hu h1 h2; exact h2)
  case a1ok t hlt hloc hg =>
    have hloc' : (s.th.getD t {}).loc = _ := hloc
    have hE : (s.get t).holdsE = true := by rw [holdsE_of_loc hloc]; rfl
    refine mu_local s _ t hlt (by simp [St.set])
      (fun u hu => by simp only [St.set, St.get, getD_set _ _ _ _ hlt, hu, if_false]) ?_ ?_ ?_ ?_ ?_ ?_
    · simp only [St.set, St.get, getD_set _ _ _ _ hlt, if_true, callW, hloc']
      simp
    · unfold rank
      simp only [St.set, St.get, getD_set _ _ _ _ hlt, if_true, hloc']
      simp [hg]
    · intro u hu h1; exact absurd h1 (noA1_of_holder hc t hE u hu)
    · intro u hu h1; exact absurd h1 (noG0_of_holder hc t hE u hu)
    all_goals (intro u hu h1 h2; exact h2)
  case b1exec t hlt hloc hg =>
    have hloc' : (s.th.getD t {}).loc = _ := hloc
    have hno := hB1 t hloc (by simp only [St.set, St.get, getD_set _ _ _ _ hlt, if_true]; simp)
    refine mu_local s _ t hlt (by simp [St.set])
      (fun u hu => by simp only [St.set, St.get, getD_set _ _ _ _ hlt, hu, if_false]) ?_ ?_ ?_ ?_ ?_ ?_
    · simp only [St.set, St.get, getD_set _ _ _ _ hlt, if_true, callW, hloc']
      simp
    · unfold rank
      simp only [St.set, St.get, getD_set _ _ _ _ hlt, if_true, hloc']
      simp
    · intro u hu h1; exact absurd h1 (hno u)
    all_goals (intro u hu h1 h2; exact h2)
  case b1wait t hlt hloc hg =>
    have hloc' : (s.th.getD t {}).loc = _ := hloc
    have hno := hB1 t hloc (by simp only [St.set, St.get, getD_set _ _ _ _ hlt, if_true]; simp)
    refine mu_local s _ t hlt (by simp [St.set])
      (fun u hu => by simp only [St.set, St.get, getD_set _ _ _ _ hlt, hu, if_false]) ?_ ?_ ?_ ?_ ?_ ?_
    · simp only [St.set, St.get, getD_set _ _ _ _ hlt, if_true, callW, hloc']
      simp
    · unfold rank
      simp only [St.set, St.get, getD_set _ _ _ _ hlt, if_true, hloc']
      simp
    · intro u hu h1; exact absurd h1 (hno u)
    all_goals (intro u hu h1 h2; exact h2)
  case d0 t hlt hloc hg =>
    have hloc' : (s.th.getD t {}).loc = _ := hloc
    have hno := noA1_of_outcome hc (hc.gathOutcome t (by rw [hloc]; rfl))
    refine mu_local s _ t hlt (by simp [St.set])
      (fun u hu => by simp only [St.set, St.get, getD_set _ _ _ _ hlt, hu, if_false]) ?_ ?_ ?_ ?_ ?_ ?_
    · simp only [St.set, St.get, getD_set _ _ _ _ hlt, if_true, callW, hloc']
      simp
    · unfold rank
      simp only [St.set, St.get, getD_set _ _ _ _ hlt, if_true, hloc']
      simp
    · intro u hu h1; exact absurd h1 (hno u)
    · intro u hu h1 h2; simp only [St.set] at h2; omega
    all_goals (intro u hu h1 h2; exact h2)
  case g4 t hlt hloc hg =>
    have hloc' : (s.th.getD t {}).loc = _ := hloc
    have hE : (s.get t).holdsE = true := by rw [holdsE_of_loc hloc]; rfl
    refine mu_local s _ t hlt (by simp [St.at, St.set])
      (fun u hu => by simp only [St.at, St.set, St.get, getD_set _ _ _ _ hlt, hu, if_false]) ?_ ?_ ?_ ?_ ?_ ?_
    · simp only [St.at, St.set, St.get, getD_set _ _ _ _ hlt, if_true, callW, hloc']
      simp
    · unfold rank
      simp only [St.at, St.set, St.get, getD_set _ _ _ _ hlt, if_true, hloc']
      simp
    · intro u hu h1; exact absurd h1 (noA1_of_holder hc t hE u hu)
    · intro u hu h1 h2; simp [St.at, St.set] at h2
    all_goals (intro u hu h1 h2; exact h2)
  case g3 t hlt hloc hg =>
    have hloc' : (s.th.getD t {}).loc = _ := hloc
    have hnod := hc.icwNodup
    have hoth : ∀ u, u ≠ t → ({ s with icw := s.icw.tail }.at t .g0).get u = s.get u :=
      fun u hu => by simp only [St.at, St.set, St.get, getD_set _ _ _ _ hlt, hu, if_false]
    have hcall : callW (({ s with icw := s.icw.tail }.at t .g0).get t) = callW (s.get t) := by
      simp only [St.at, St.set, St.get, getD_set _ _ _ _ hlt, if_true, callW, hloc']
      simp
    rcases hG3 t hloc (by simp only [St.at, St.set, St.get, getD_set _ _ _ _ hlt, if_true]) with htc | ⟨w, rest, hw, hwl, hwt⟩
    · refine mu_local s _ t hlt (by simp [St.at, St.set]) hoth hcall ?_ ?_ ?_ ?_ ?_
      · unfold rank
        simp only [St.at, St.set, St.get, getD_set _ _ _ _ hlt, if_true, hloc']
        simp [htc]
      · intro u hu h1 h2; exact h2
      · intro u hu h1 h2; exact h2
      · intro u hu h1 h2; exact List.mem_of_mem_tail h2
      · intro u hu h1 h2; exact h2
    · right
      refine ⟨(callsLeft_update s _ t hlt (by simp [St.at, St.set]) hoth).1 hcall, ?_⟩
      have hwlt : w < s.th.length := by
        by_cases hh : w < s.th.length
        · exact hh
        · rw [get_default s w (by omega)] at hwl; simp at hwl
      have hwr : w ∉ rest := by rw [hw] at hnod; exact (List.nodup_cons.mp hnod).1
      unfold phi
      have hlen : ({ s with icw := s.icw.tail }.at t .g0).th.length = s.th.length := by simp [St.at, St.set]
      rw [hlen]
      apply sumUpTo_lt_comp (c := 3) hlt hwlt (fun e => hwt e.symm)
      · unfold rank
        simp only [St.at, St.set, St.get, getD_set _ _ _ _ hlt, if_true, hloc']
        simp
        split <;> omega
      · have hwl' : (s.th.getD w {}).loc = .c2 := hwl
        unfold rank
        simp only [St.at, St.set, St.get, getD_set _ _ _ _ hlt, hwt, if_false, hwl', hw, List.tail_cons]
        simp [hwr]
      · intro u _ hu huw
        apply rank_other_le s _ u (hoth u hu)
        · intro _ h2; exact h2
        · intro _ h2; exact h2
        · intro _ h2; exact List.mem_of_mem_tail h2
        · intro _ h2; exact h2
  all_goals (
    rename_i t hlt hloc hg
    have hloc' : (s.th.getD t {}).loc = _ := hloc
    refine mu_local s _ t hlt (by simp [St.at, St.set])
      (fun u hu => by simp only [St.at, St.set, St.get, getD_set _ _ _ _ hlt, hu, if_false]) ?_ ?_ ?_ ?_ ?_ ?_
    · simp only [St.at, St.set, St.get, getD_set _ _ _ _ hlt, if_true, callW, hloc']
      simp
    · unfold rank
      simp only [St.at, St.set, St.get, getD_set _ _ _ _ hlt, if_true, hloc']
      first
        | (simp; done)
        | grind
        | (simp; grind)
    all_goals (
      intro u hu h1
      simp only [St.at, St.set]
      first
        | (intro h2; exact h2)
        | (intro _; rfl)
        | (intro _; trivial)
        | trivial
        | (intro h2; exact List.mem_of_mem_tail h2)
        | (intro h2; simp at h2; done)
        | (intro h2; exact List.mem_of_mem_erase h2)
        | (intro h2; rcases List.mem_append.mp h2 with h3 | h3
           · exact h3
           · simp at h3; exact absurd h3 hu)
        | (trace_state; fail "cond")))

end Runner
