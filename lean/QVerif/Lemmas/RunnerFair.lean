import QVerif.Lemmas.RunnerRetry
open Runner
namespace Runner

/-! ### Strong fairness: no infinite fair execution

Thread `t` *acts* in a step iff its program location changes (every step of the runner moves exactly one thread to another
location).  An infinite execution is strongly fair if every thread that is enabled infinitely often acts infinitely often. -/

def StepBy (t : Nat) (s s' : St) : Prop := Step s s' ∧ (s'.get t).loc ≠ (s.get t).loc
def EnabledT (t : Nat) (s : St) : Prop := ∃ s', StepBy t s s'

def IsExec (σ : Nat → St) : Prop := ∀ i, Step (σ i) (σ (i + 1))
def StrongFair (σ : Nat → St) : Prop :=
  ∀ t, (∀ i, ∃ j, i ≤ j ∧ EnabledT t (σ j)) → ∀ i, ∃ j, i ≤ j ∧ StepBy t (σ j) (σ (j + 1))

/-! #### the tail: from some point on only retry-loop steps -/

theorem weight_mono {σ : Nat → St} (hex : IsExec σ) : ∀ i, weight (σ i) ≤ weight (σ 0)
  | 0 => Nat.le_refl _
  | i + 1 => by
      have ih := weight_mono hex i
      rcases nu_of_step (hex i) with h | h
      · have := weight_lt (hex i) h; omega
      · have := weight_le (hex i) h; omega

theorem tail_exists : ∀ (w : Nat) (σ : Nat → St), IsExec σ → weight (σ 0) = w →
    ∃ N, ∀ i, N ≤ i → ¬ muLt2 (σ (i + 1)) (σ i) := by
  intro w
  induction w using Nat.strongRecOn with
  | _ w ih =>
    intro σ hex hw
    by_cases h : ∃ i, muLt2 (σ (i + 1)) (σ i)
    · obtain ⟨i0, hi0⟩ := h
      have h1 := weight_lt (hex i0) hi0
      have h2 := weight_mono hex i0
      obtain ⟨N', hN'⟩ := ih (weight (σ (i0 + 1))) (by omega) (fun k => σ (i0 + 1 + k))
        (fun k => by have := hex (i0 + 1 + k); simpa [Nat.add_assoc] using this) (by simp)
      refine ⟨i0 + 1 + N', ?_⟩
      intro i hi
      have := hN' (i - (i0 + 1)) (by omega)
      have e1 : i0 + 1 + (i - (i0 + 1)) = i := by omega
      have e2 : i0 + 1 + (i - (i0 + 1) + 1) = i + 1 := by omega
      simp only [e1, e2] at this
      exact this
    · exact ⟨0, fun i _ hi => h ⟨i, hi⟩⟩

/-- a retry-shaped step: the acting thread and what does not change -/
theorem shape_facts {s s' : St} {t : Nat} (hlt : t < s.th.length) (h : RetryShape s t s') :
    (s.get t).loc.retry = true ∧ (s'.get t).loc.retry = true ∧ (s'.get t).loc ≠ (s.get t).loc ∧
    (∀ u, u ≠ t → s'.get u = s.get u) ∧ s'.V = s.V ∧ s'.tc = s.tc ∧ s'.th.length = s.th.length := by
  cases h <;> (rename_i hloc hg
               have hloc' : (s.th.getD t {}).loc = _ := hloc
               refine ⟨by rw [hloc]; rfl, ?_, ?_, ?_, ?_, ?_, ?_⟩
               · simp only [St.at, St.set, St.get, getD_set _ _ _ _ hlt, if_true]; rfl
               · simp only [St.at, St.set, St.get, getD_set _ _ _ _ hlt, if_true, hloc']; decide
               · intro u hu; simp only [St.at, St.set, St.get, getD_set _ _ _ _ hlt, hu, if_false]
               · simp [St.at, St.set]
               · simp [St.at, St.set]
               · simp [St.at, St.set])

/-! #### enabledness of the locations outside the two retry loops -/

theorem en_a2 {s : St} {t : Nat} (hlt : t < s.th.length) (hloc : (s.get t).loc = .a2) : EnabledT t s :=
  ⟨_, Step.a2 t hlt hloc trivial, by simp only [St.at, St.set, St.get, getD_set _ _ _ _ hlt, if_true, show (s.th.getD t {}).loc = _ from hloc]; decide⟩

theorem en_a3 {s : St} {t : Nat} (hlt : t < s.th.length) (hloc : (s.get t).loc = .a3) : EnabledT t s :=
  ⟨_, Step.a3 t hlt hloc trivial, by simp only [St.at, St.set, St.get, getD_set _ _ _ _ hlt, if_true, show (s.th.getD t {}).loc = _ from hloc]; decide⟩

theorem en_a4 {s : St} {t : Nat} (hlt : t < s.th.length) (hloc : (s.get t).loc = .a4) : EnabledT t s :=
  ⟨_, Step.a4 t hlt hloc trivial, by simp only [St.at, St.set, St.get, getD_set _ _ _ _ hlt, if_true, show (s.th.getD t {}).loc = _ from hloc]; decide⟩

theorem en_b0 {s : St} {t : Nat} (hlt : t < s.th.length) (hloc : (s.get t).loc = .b0) : EnabledT t s :=
  ⟨_, Step.b0 t hlt hloc trivial, by simp only [St.at, St.set, St.get, getD_set _ _ _ _ hlt, if_true, show (s.th.getD t {}).loc = _ from hloc]; decide⟩

theorem en_b4 {s : St} {t : Nat} (hlt : t < s.th.length) (hloc : (s.get t).loc = .b4) : EnabledT t s :=
  ⟨_, Step.b4 t hlt hloc trivial, by simp only [St.at, St.set, St.get, getD_set _ _ _ _ hlt, if_true, show (s.th.getD t {}).loc = _ from hloc]; decide⟩

theorem en_c0 {s : St} {t : Nat} (hlt : t < s.th.length) (hloc : (s.get t).loc = .c0) : EnabledT t s :=
  ⟨_, Step.c0 t hlt hloc trivial, by simp only [St.at, St.set, St.get, getD_set _ _ _ _ hlt, if_true, show (s.th.getD t {}).loc = _ from hloc]; decide⟩

theorem en_c1 {s : St} {t : Nat} (hlt : t < s.th.length) (hloc : (s.get t).loc = .c1) : EnabledT t s :=
  ⟨_, Step.c1 t hlt hloc trivial, by simp only [St.at, St.set, St.get, getD_set _ _ _ _ hlt, if_true, show (s.th.getD t {}).loc = _ from hloc]; decide⟩

theorem en_d1 {s : St} {t : Nat} (hlt : t < s.th.length) (hloc : (s.get t).loc = .d1) : EnabledT t s :=
  ⟨_, Step.d1 t hlt hloc trivial, by simp only [St.at, St.set, St.get, getD_set _ _ _ _ hlt, if_true, show (s.th.getD t {}).loc = _ from hloc]; decide⟩

theorem en_g5 {s : St} {t : Nat} (hlt : t < s.th.length) (hloc : (s.get t).loc = .g5) : EnabledT t s :=
  ⟨_, Step.g5 t hlt hloc trivial, by simp only [St.at, St.set, St.get, getD_set _ _ _ _ hlt, if_true, show (s.th.getD t {}).loc = _ from hloc]; decide⟩

theorem en_g6 {s : St} {t : Nat} (hlt : t < s.th.length) (hloc : (s.get t).loc = .g6) : EnabledT t s :=
  ⟨_, Step.g6 t hlt hloc trivial, by simp only [St.at, St.set, St.get, getD_set _ _ _ _ hlt, if_true, show (s.th.getD t {}).loc = _ from hloc]; decide⟩

theorem en_g7 {s : St} {t : Nat} (hlt : t < s.th.length) (hloc : (s.get t).loc = .g7) : EnabledT t s :=
  ⟨_, Step.g7 t hlt hloc trivial, by simp only [St.at, St.set, St.get, getD_set _ _ _ _ hlt, if_true, show (s.th.getD t {}).loc = _ from hloc]; decide⟩

theorem en_b3 {s : St} {t : Nat} (hlt : t < s.th.length) (hloc : (s.get t).loc = .b3) : EnabledT t s :=
  ⟨_, Step.b3ok t hlt hloc trivial, by simp only [St.at, St.set, St.get, getD_set _ _ _ _ hlt, if_true, show (s.th.getD t {}).loc = _ from hloc]; decide⟩

theorem en_d2 {s : St} {t : Nat} (hlt : t < s.th.length) (hloc : (s.get t).loc = .d2) : EnabledT t s := by
  by_cases he : (s.get t).exec = true
  · exact ⟨_, Step.d2exec t hlt hloc he, by simp only [St.at, St.set, St.get, getD_set _ _ _ _ hlt, if_true, show (s.th.getD t {}).loc = _ from hloc]; decide⟩
  · exact ⟨_, Step.d2plain t hlt hloc he, by simp only [St.at, St.set, St.get, getD_set _ _ _ _ hlt, if_true, show (s.th.getD t {}).loc = _ from hloc]; decide⟩

theorem en_b1 {s : St} {t : Nat} (hlt : t < s.th.length) (hloc : (s.get t).loc = .b1) (hV : s.V = none) : EnabledT t s := by
  by_cases he : s.ec + 1 = s.tc
  · exact ⟨_, Step.b1exec t hlt hloc ⟨hV, he⟩, by simp only [St.at, St.set, St.get, getD_set _ _ _ _ hlt, if_true, show (s.th.getD t {}).loc = _ from hloc]; decide⟩
  · exact ⟨_, Step.b1wait t hlt hloc ⟨hV, he⟩, by simp only [St.at, St.set, St.get, getD_set _ _ _ _ hlt, if_true, show (s.th.getD t {}).loc = _ from hloc]; decide⟩

theorem en_b2 {s : St} {t : Nat} (hlt : t < s.th.length) (hloc : (s.get t).loc = .b2) (hE : s.E = none) : EnabledT t s :=
  ⟨_, Step.b2 t hlt hloc hE, by simp only [St.at, St.set, St.get, getD_set _ _ _ _ hlt, if_true, show (s.th.getD t {}).loc = _ from hloc]; decide⟩

theorem en_c2 {s : St} {t : Nat} (hlt : t < s.th.length) (hloc : (s.get t).loc = .c2) (hi : t ∉ s.icw) : EnabledT t s :=
  ⟨_, Step.c2 t hlt hloc hi, by simp only [St.at, St.set, St.get, getD_set _ _ _ _ hlt, if_true, show (s.th.getD t {}).loc = _ from hloc]; decide⟩

theorem en_d0 {s : St} {t : Nat} (hlt : t < s.th.length) (hloc : (s.get t).loc = .d0) (hV : s.V = none) : EnabledT t s :=
  ⟨_, Step.d0 t hlt hloc hV, by simp only [St.at, St.set, St.get, getD_set _ _ _ _ hlt, if_true, show (s.th.getD t {}).loc = _ from hloc]; decide⟩

theorem en_g4 {s : St} {t : Nat} (hlt : t < s.th.length) (hloc : (s.get t).loc = .g4) (hV : s.V = none) : EnabledT t s :=
  ⟨_, Step.g4 t hlt hloc hV, by simp only [St.at, St.set, St.get, getD_set _ _ _ _ hlt, if_true, show (s.th.getD t {}).loc = _ from hloc]; decide⟩

/-! #### in the tail, threads outside the retry loops never move; by fairness they are eventually never enabled -/

theorem lt_of_loc_ne_idle {s : St} {u : Nat} (h : (s.get u).loc ≠ .idle) : u < s.th.length := by
  by_cases hu : u < s.th.length
  · exact hu
  · rw [get_default s u (by omega)] at h; exact absurd rfl h

theorem exec_len {σ : Nat → St} (hex : IsExec σ) : ∀ i, (σ i).th.length = (σ 0).th.length
  | 0 => rfl
  | i + 1 => by rw [step_len (hex i), exec_len hex i]

/-- the tail property: every step from `N` on is a retry-shaped step -/
def Tail (σ : Nat → St) (N : Nat) : Prop := ∀ i, N ≤ i → ∃ t, t < (σ i).th.length ∧ RetryShape (σ i) t (σ (i + 1))

theorem tail_of_exec {σ : Nat → St} (hex : IsExec σ) : ∃ N, Tail σ N := by
  obtain ⟨N, hN⟩ := tail_exists (weight (σ 0)) σ hex rfl
  refine ⟨N, fun i hi => ?_⟩
  rcases nu_of_step_shape (hex i) with h | h
  · exact absurd h (hN i hi)
  · exact h.2

theorem nonretry_step {σ : Nat → St} {N i u : Nat} (ht : Tail σ N) (hi : N ≤ i)
    (hu : ((σ i).get u).loc.retry = false) :
    (σ (i + 1)).get u = (σ i).get u ∧ ¬ StepBy u (σ i) (σ (i + 1)) := by
  obtain ⟨t, hlt, hsh⟩ := ht i hi
  obtain ⟨h1, _, _, hfr, _⟩ := shape_facts hlt hsh
  have hne : u ≠ t := by intro e; subst e; rw [hu] at h1; cases h1
  refine ⟨hfr u hne, ?_⟩
  intro hs
  exact hs.2 (by rw [hfr u hne])

theorem retry_step_stays {σ : Nat → St} {N i u : Nat} (ht : Tail σ N) (hi : N ≤ i)
    (hu : ((σ i).get u).loc.retry = true) : ((σ (i + 1)).get u).loc.retry = true := by
  obtain ⟨t, hlt, hsh⟩ := ht i hi
  obtain ⟨_, h2, _, hfr, _⟩ := shape_facts hlt hsh
  by_cases e : u = t
  · subst e; exact h2
  · rw [hfr u e]; exact hu

theorem nonretry_forever {σ : Nat → St} {N i u : Nat} (ht : Tail σ N) (hi : N ≤ i)
    (hu : ((σ i).get u).loc.retry = false) : ∀ k, (σ (i + k)).get u = (σ i).get u
  | 0 => rfl
  | k + 1 => by
      have ih := nonretry_forever ht hi hu k
      have := (nonretry_step ht (by omega : N ≤ i + k) (by rw [ih]; exact hu)).1
      rw [← ih, ← this]; rfl

/-- a thread that is outside the retry loops at some time in the tail was so at the start of the tail -/
theorem nonretry_back {σ : Nat → St} {N u : Nat} (ht : Tail σ N) : ∀ k, ((σ (N + k)).get u).loc.retry = false →
    ((σ N).get u).loc.retry = false
  | 0, h => h
  | k + 1, h => by
      apply nonretry_back ht k
      cases hr : ((σ (N + k)).get u).loc.retry with
      | false => rfl
      | true =>
        have := retry_step_stays ht (by omega : N ≤ N + k) hr
        rw [show N + k + 1 = N + (k + 1) from rfl] at this
        rw [this] at h; cases h

theorem fair_never_enabled {σ : Nat → St} {N u : Nat} (ht : Tail σ N) (hf : StrongFair σ)
    (hu : ((σ N).get u).loc.retry = false) : ∃ m, ∀ j, m ≤ j → ¬ EnabledT u (σ j) := by
  apply Classical.byContradiction; intro hcon
  have hinf : ∀ i, ∃ j, i ≤ j ∧ EnabledT u (σ j) := by
    intro i
    apply Classical.byContradiction; intro h2
    apply hcon
    refine ⟨i, fun j hj he => h2 ⟨j, hj, he⟩⟩
  obtain ⟨j, hj, hs⟩ := hf u hinf N
  have hk : ((σ j).get u).loc.retry = false := by
    have := nonretry_forever ht (Nat.le_refl N) hu (j - N)
    rw [show N + (j - N) = j by omega] at this
    rw [this]; exact hu
  exact (nonretry_step ht hj hk).2 hs

theorem uniform_bound (P : Nat → Nat → Prop) : ∀ n, (∀ t, t < n → ∃ m, ∀ j, m ≤ j → P t j) →
    ∃ M, ∀ t, t < n → ∀ j, M ≤ j → P t j
  | 0, _ => ⟨0, fun t ht => absurd ht (Nat.not_lt_zero t)⟩
  | n + 1, h => by
      obtain ⟨M, hM⟩ := uniform_bound P n (fun t ht => h t (by omega))
      obtain ⟨m, hm⟩ := h n (by omega)
      refine ⟨max M m, fun t ht j hj => ?_⟩
      by_cases e : t = n
      · subst e; exact hm j (by omega)
      · exact hM t (by omega) j (by omega)

/-- from some point on: every step is retry-shaped, and no thread outside the retry loops is ever enabled -/
theorem quiet_tail {σ : Nat → St} (hex : IsExec σ) (hf : StrongFair σ) :
    ∃ M, Tail σ M ∧ ∀ j, M ≤ j → ∀ u, u < (σ j).th.length → ((σ j).get u).loc.retry = false → ¬ EnabledT u (σ j) := by
  obtain ⟨N, ht⟩ := tail_of_exec hex
  obtain ⟨M, hM⟩ := uniform_bound (fun u j => ((σ N).get u).loc.retry = false → ¬ EnabledT u (σ j)) (σ 0).th.length
    (fun u _ => by
      by_cases hu : ((σ N).get u).loc.retry = false
      · obtain ⟨m, hm⟩ := fair_never_enabled ht hf hu
        exact ⟨m, fun j hj _ => hm j hj⟩
      · exact ⟨0, fun j _ h => absurd h hu⟩)
  refine ⟨max N M, fun i hi => ht i (by omega), ?_⟩
  intro j hj u hu hnr
  rw [exec_len hex j] at hu
  have hback : ((σ N).get u).loc.retry = false := by
    have := nonretry_back (u := u) ht (j - N)
    rw [show N + (j - N) = j by omega] at this
    exact this hnr
  exact hM u hu j (by omega) hback

/-! #### in the quiet tail every step decreases a measure — so the tail cannot be infinite -/

def Quiet (s : St) : Prop := ∀ u, u < s.th.length → (s.get u).loc.retry = false → ¬ EnabledT u s

def psiA (pos : Bool) : Loc → Nat
  | .a7 => 4 | .a8 => 3 | .a9 => 2 | .a0 => 1
  | .g0 => if pos then 4 else 0
  | .g1 => 3 | .g2 => 2 | .g3 => 1
  | _ => 0

def psiB : Loc → Nat
  | .a1 => 1 | .a8 => 2 | .a9 => 1
  | _ => 0

def Psi (s : St) : Nat :=
  if s.V = none then sumUpTo (fun u => psiA (decide (s.tc > 0)) (s.get u).loc) s.th.length
  else sumUpTo (fun u => psiB (s.get u).loc) s.th.length

/-- in a quiet state the variable lock is free or held by the executor-elect waiting for the entry lock -/
theorem quiet_vholder {s : St} (hc : CInv s) (hq : Quiet s) (h : Nat) (hV : s.V = some h) : (s.get h).loc = .b2 := by
  have hv := (hc.lockV h).mp hV
  have hne : (s.get h).loc ≠ .idle := by
    intro e; rw [holdsV_of_loc e] at hv; simp [Loc.vHold] at hv
  have hlt := lt_of_loc_ne_idle hne
  cases hl : (s.get h).loc <;> rw [holdsV_of_loc hl] at hv <;> simp [Loc.vHold] at hv
  · exact absurd (en_a2 hlt hl) (hq h hlt (by rw [hl]; rfl))
  · exact absurd (en_a3 hlt hl) (hq h hlt (by rw [hl]; rfl))
  · exact absurd (en_b3 hlt hl) (hq h hlt (by rw [hl]; rfl))
  · exact absurd (en_b4 hlt hl) (hq h hlt (by rw [hl]; rfl))
  · exact absurd (en_c0 hlt hl) (hq h hlt (by rw [hl]; rfl))
  · exact absurd (en_d1 hlt hl) (hq h hlt (by rw [hl]; rfl))
  · exact absurd (en_d2 hlt hl) (hq h hlt (by rw [hl]; rfl))
  · exact absurd (en_g5 hlt hl) (hq h hlt (by rw [hl]; rfl))

/-- some thread is a member of the open batch when the counter is positive -/
theorem member_exists {s : St} (hc : CInv s) (h : s.tc > 0) : ∃ w, w < s.th.length ∧ (s.get w).isMember = true := by
  rw [hc.tcCount] at h
  obtain ⟨x, hx, hp⟩ := List.countP_pos_iff.mp h
  obtain ⟨w, hw, rfl⟩ := List.getElem_of_mem hx
  exact ⟨w, hw, by rw [get_eq_getElem s w hw]; exact hp⟩

/-- in a quiet state with the variable lock free, every member of the batch is waiting in the internal waiter list -/
theorem quiet_member_waits {s : St} (hc : CInv s) (hq : Quiet s) (hV : s.V = none) (w : Nat) (hw : w < s.th.length)
    (hm : (s.get w).isMember = true) : (s.get w).loc = .c2 ∧ w ∈ s.icw := by
  cases hl : (s.get w).loc <;> rw [isMember_of_loc hl] at hm <;> simp [Loc.member] at hm
  · exact absurd (en_a2 hw hl) (hq w hw (by rw [hl]; rfl))
  · exact absurd (en_a3 hw hl) (hq w hw (by rw [hl]; rfl))
  · exact absurd (en_a4 hw hl) (hq w hw (by rw [hl]; rfl))
  · exact absurd (en_b0 hw hl) (hq w hw (by rw [hl]; rfl))
  · exact absurd (en_b1 hw hl hV) (hq w hw (by rw [hl]; rfl))
  · have : s.V = some w := (hc.lockV w).mpr (by rw [holdsV_of_loc hl]; rfl)
    rw [hV] at this; cases this
  · exact absurd (en_b3 hw hl) (hq w hw (by rw [hl]; rfl))
  · exact absurd (en_b4 hw hl) (hq w hw (by rw [hl]; rfl))
  · exact absurd (en_c0 hw hl) (hq w hw (by rw [hl]; rfl))
  · exact absurd (en_c1 hw hl) (hq w hw (by rw [hl]; rfl))
  · refine ⟨rfl, ?_⟩
    apply Classical.byContradiction; intro hni
    exact absurd (en_c2 hw hl hni) (hq w hw (by rw [hl]; rfl))
  · exact absurd (en_d0 hw hl hV) (hq w hw (by rw [hl]; rfl))

theorem psi_step {s s' : St} {t : Nat} (hc : CInv s) (hq : Quiet s) (hq' : Quiet s') (hlt : t < s.th.length)
    (hsh : RetryShape s t s') : Psi s' < Psi s := by
  obtain ⟨_, _, _, hfr, hVeq, htc, hlen⟩ := shape_facts hlt hsh
  have sum_lt : ∀ f : Loc → Nat, f (s'.get t).loc < f (s.get t).loc →
      sumUpTo (fun u => f (s'.get u).loc) s'.th.length < sumUpTo (fun u => f (s.get u).loc) s.th.length := by
    intro f hf
    rw [hlen]
    apply sumUpTo_lt hlt hf
    intro u _ hu
    rw [hfr u hu]; exact Nat.le_refl _
  cases hV : s.V with
  | none =>
    have hV' : s'.V = none := by rw [hVeq, hV]
    unfold Psi
    rw [if_pos hV', if_pos hV, htc]
    apply sum_lt
    cases hsh with
    | a1fail hloc hg => exact absurd hV hg
    | a0 hloc hg =>
      simp only [St.at, St.set, St.get, getD_set _ _ _ _ hlt, if_true, show (s.th.getD t {}).loc = _ from hloc]
      simp [psiA, psiB]
    | a7 hloc hg =>
      simp only [St.at, St.set, St.get, getD_set _ _ _ _ hlt, if_true, show (s.th.getD t {}).loc = _ from hloc]
      simp [psiA, psiB]
    | a8 hloc hg =>
      simp only [St.at, St.set, St.get, getD_set _ _ _ _ hlt, if_true, show (s.th.getD t {}).loc = _ from hloc]
      simp [psiA, psiB]
    | a9 hloc hg =>
      simp only [St.at, St.set, St.get, getD_set _ _ _ _ hlt, if_true, show (s.th.getD t {}).loc = _ from hloc]
      simp [psiA, psiB]
    | a9timeout hloc hg =>
      simp only [St.at, St.set, St.get, getD_set _ _ _ _ hlt, if_true, show (s.th.getD t {}).loc = _ from hloc]
      simp [psiA, psiB]
    | g1 hloc hg =>
      simp only [St.at, St.set, St.get, getD_set _ _ _ _ hlt, if_true, show (s.th.getD t {}).loc = _ from hloc]
      simp [psiA, psiB]
    | g2 hloc hg =>
      simp only [St.at, St.set, St.get, getD_set _ _ _ _ hlt, if_true, show (s.th.getD t {}).loc = _ from hloc]
      simp [psiA, psiB]
    | g2timeout hloc hg =>
      simp only [St.at, St.set, St.get, getD_set _ _ _ _ hlt, if_true, show (s.th.getD t {}).loc = _ from hloc]
      simp [psiA, psiB]
    | g0wait hloc hg =>
      simp only [St.at, St.set, St.get, getD_set _ _ _ _ hlt, if_true, show (s.th.getD t {}).loc = _ from hloc]
      simp [psiA, hg]
    | g3 hloc hg =>
      by_cases hpos : s.tc > 0
      · -- a member of the batch waits in the list; the notify wakes the head, which is then enabled: impossible in a quiet state
        exfalso
        obtain ⟨w, hw, hm⟩ := member_exists hc hpos
        obtain ⟨_, hwi⟩ := quiet_member_waits hc hq hV w hw hm
        cases hicw : s.icw with
        | nil => rw [hicw] at hwi; cases hwi
        | cons h rest =>
          have hh : h ∈ s.icw := by rw [hicw]; simp
          rcases hc.icwLoc h hh with h1 | h1
          · have hlth : h < s.th.length := lt_of_loc_ne_idle (by rw [h1]; decide)
            have hne' : h ≠ t := by intro e; subst e; rw [hloc] at h1; cases h1
            have hnod := hc.icwNodup
            rw [hicw] at hnod
            have hnr : h ∉ rest := (List.nodup_cons.mp hnod).1
            have hen : EnabledT h ({ s with icw := s.icw.tail }.at t .g0) :=
              en_c2 (by simpa [St.at, St.set] using hlth) (by rw [hfr h hne']; exact h1) (by simp [St.at, St.set, hicw, hnr])
            exact hq' h (by simpa [St.at, St.set] using hlth) (by rw [hfr h hne', h1]; rfl) hen
          · have e := hc.oneExec h t (by rw [inExec_of_loc h1]; rfl) (by rw [inExec_of_loc hloc]; rfl)
            subst e; rw [hloc] at h1; cases h1
      · simp only [St.at, St.set, St.get, getD_set _ _ _ _ hlt, if_true, show (s.th.getD t {}).loc = _ from hloc]
        simp [psiA, hpos]
  | some Z =>
    have hZ := quiet_vholder hc hq Z hV
    have hZlt : Z < s.th.length := lt_of_loc_ne_idle (by rw [hZ]; decide)
    have hE : s.E ≠ none := fun e => absurd (en_b2 hZlt hZ e) (hq Z hZlt (by rw [hZ]; rfl))
    unfold Psi
    rw [if_neg (by rw [hVeq, hV]; simp), if_neg (by rw [hV]; simp)]
    apply sum_lt
    cases hsh with
    | a0 hloc hg => exact absurd hg hE
    | a1fail hloc hg =>
      simp only [St.at, St.set, St.get, getD_set _ _ _ _ hlt, if_true, show (s.th.getD t {}).loc = _ from hloc]
      simp [psiA, psiB]
    | a8 hloc hg =>
      simp only [St.at, St.set, St.get, getD_set _ _ _ _ hlt, if_true, show (s.th.getD t {}).loc = _ from hloc]
      simp [psiA, psiB]
    | a9 hloc hg =>
      simp only [St.at, St.set, St.get, getD_set _ _ _ _ hlt, if_true, show (s.th.getD t {}).loc = _ from hloc]
      simp [psiA, psiB]
    | a9timeout hloc hg =>
      simp only [St.at, St.set, St.get, getD_set _ _ _ _ hlt, if_true, show (s.th.getD t {}).loc = _ from hloc]
      simp [psiA, psiB]
    | a7 hloc hg =>
      -- releasing the entry lock enables the executor-elect: impossible in a quiet state
      exfalso
      have hne' : Z ≠ t := by intro e; subst e; rw [hloc] at hZ; cases hZ
      have hen : EnabledT Z ({ s with E := none }.at t .a8) :=
        en_b2 (by simpa [St.at, St.set] using hZlt) (by rw [hfr Z hne']; exact hZ) (by simp [St.at, St.set])
      exact hq' Z (by simpa [St.at, St.set] using hZlt) (by rw [hfr Z hne', hZ]; rfl) hen
    | g0wait hloc hg =>
      exfalso
      have e := hc.oneExec t Z (by rw [inExec_of_loc hloc]; rfl) (by rw [inExec_of_loc hZ]; rfl)
      subst e; rw [hloc] at hZ; cases hZ
    | g1 hloc hg =>
      exfalso
      have e := hc.oneExec t Z (by rw [inExec_of_loc hloc]; rfl) (by rw [inExec_of_loc hZ]; rfl)
      subst e; rw [hloc] at hZ; cases hZ
    | g2 hloc hg =>
      exfalso
      have e := hc.oneExec t Z (by rw [inExec_of_loc hloc]; rfl) (by rw [inExec_of_loc hZ]; rfl)
      subst e; rw [hloc] at hZ; cases hZ
    | g2timeout hloc hg =>
      exfalso
      have e := hc.oneExec t Z (by rw [inExec_of_loc hloc]; rfl) (by rw [inExec_of_loc hZ]; rfl)
      subst e; rw [hloc] at hZ; cases hZ
    | g3 hloc hg =>
      exfalso
      have e := hc.oneExec t Z (by rw [inExec_of_loc hloc]; rfl) (by rw [inExec_of_loc hZ]; rfl)
      subst e; rw [hloc] at hZ; cases hZ

/-! #### the theorem -/

theorem reachable_exec (th0 : List TS) {σ : Nat → St} (hr : Reachable th0 (σ 0)) (hex : IsExec σ) : ∀ i, Reachable th0 (σ i)
  | 0 => hr
  | i + 1 => by
      obtain ⟨a, ha⟩ := step_complete _ _ (hex i)
      exact .next a (reachable_exec th0 hr hex i) ha

theorem no_desc (f : Nat → Nat) (h : ∀ k, f (k + 1) < f k) : False := by
  have key : ∀ k, f k + k ≤ f 0 := by
    intro k
    induction k with
    | zero => simp
    | succ k ih => have := h k; omega
  have := key (f 0 + 1)
  omega

/-- **There is no infinite strongly fair execution of the runner.** -/
theorem no_infinite_fair_execution (th0 : List TS) (h0 : ∀ x ∈ th0, x.loc = .idle) (σ : Nat → St)
    (hr : Reachable th0 (σ 0)) (hex : IsExec σ) (hf : StrongFair σ) : False := by
  obtain ⟨M, ht, hq⟩ := quiet_tail hex hf
  apply no_desc (fun k => Psi (σ (M + k)))
  intro k
  obtain ⟨t, hlt, hsh⟩ := ht (M + k) (by omega)
  have hc := cinv_reachable th0 h0 (reachable_exec th0 hr hex (M + k))
  have := psi_step hc (fun u hu hn => hq (M + k) (by omega) u hu hn)
    (fun u hu hn => hq (M + k + 1) (by omega) u hu hn) hlt hsh
  exact this

end Runner
