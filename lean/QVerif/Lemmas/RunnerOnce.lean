import QVerif.Lemmas.RunnerData

/-!
# Every submitted pub is handed to `f` exactly once (C06, last clause)

Conservation law over all reachable states: as multisets,

    pubs handed to `f` so far (all logged batches)
  + the batch being collected, if it has not been executed yet
  + the pubs of calls that have started but not yet appended themselves to the batch
  + the pubs of the calls still to be made
  = all pubs of all calls.

At the end of an execution everything but the first summand is empty.
-/

namespace Runner

/-- locations of a started call before its pubs are appended to the batch -/
def Loc.preAppend : Loc → Bool
  | .a0 | .a1 | .a7 | .a8 | .a9 => true
  | _ => false

/-- pubs of this thread that have not been appended to a batch yet: those of the call in progress (before the append)
and those of the calls still to be made -/
def TS.pending (x : TS) : List Nat := (if x.loc.preAppend then x.pubs else []) ++ x.todo.flatten

/-- the batch under construction, as long as it has not been handed to `f` -/
def St.openBatch (s : St) : List Nat := if s.outcomeSet then [] else s.batch

/-- everything handed to `f` so far -/
def St.handed (s : St) : List Nat := s.flog.flatMap (·.1)

def St.account (s : St) : List Nat := s.handed ++ s.openBatch ++ s.th.flatMap TS.pending

theorem flatMap_set_eq {α β} (l : List α) (t : Nat) (y : α) (f : α → List β) (ht : t < l.length) (h : f y = f l[t]) :
    (l.set t y).flatMap f = l.flatMap f := by
  induction l generalizing t with
  | nil => simp at ht
  | cons a l ih =>
    cases t with
    | zero => simp only [List.set_cons_zero, List.flatMap_cons]; simp only [List.getElem_cons_zero] at h; rw [h]
    | succ t =>
      simp only [List.set_cons_succ, List.flatMap_cons]
      rw [ih t (by simpa using ht) (by simpa using h)]

theorem flatMap_set_perm {α β} (l : List α) (t : Nat) (y : α) (f : α → List β) (p : List β) (ht : t < l.length)
    (h : f l[t] = p ++ f y) : (l.flatMap f).Perm (p ++ (l.set t y).flatMap f) := by
  induction l generalizing t with
  | nil => simp at ht
  | cons a l ih =>
    cases t with
    | zero =>
      simp only [List.set_cons_zero, List.flatMap_cons]
      simp only [List.getElem_cons_zero] at h
      rw [h, List.append_assoc]
    | succ t =>
      simp only [List.set_cons_succ, List.flatMap_cons]
      have := ih t (by simpa using ht) (by simpa using h)
      have h2 : (f a ++ l.flatMap f).Perm (f a ++ (p ++ (l.set t y).flatMap f)) := List.Perm.append_left _ this
      refine h2.trans ?_
      rw [← List.append_assoc, ← List.append_assoc]
      exact List.Perm.append_right _ List.perm_append_comm

theorem pending_of {x : TS} {l : Loc} (h : x.loc = l) : x.pending = (if l.preAppend then x.pubs else []) ++ x.todo.flatten := by
  simp [TS.pending, h]

theorem set_pending_eq (s : St) (t : Nat) (hlt : t < s.th.length) (y : TS) (h1 : y.pubs = (s.get t).pubs)
    (h2 : y.todo = (s.get t).todo) (h3 : y.loc.preAppend = (s.get t).loc.preAppend) :
    (s.th.set t y).flatMap TS.pending = s.th.flatMap TS.pending := by
  apply flatMap_set_eq _ _ _ _ hlt
  rw [← get_eq_getElem s t hlt]
  simp only [TS.pending, h1, h2, h3]

theorem outcome_unset_at_b3 {s : St} (hc : CInv s) (t : Nat) (hloc : (s.get t).loc = .b3) : s.outcomeSet = false := by
  cases ho : s.outcomeSet with
  | false => rfl
  | true =>
    exfalso
    obtain ⟨u, hu⟩ := hc.outcome.mp ho
    have hie : (s.get t).inExec = true := by rw [inExec_of_loc hloc]; rfl
    have hue : (s.get u).inExec = true := by simp only [TS.inOut, Bool.and_eq_true] at hu; exact hu.1
    have := hc.oneExec u t hue hie
    subst this
    simp [TS.inOut, hloc, Loc.outReg] at hu

section
variable {s s' : St}

/-- one step preserves the account up to permutation -/
theorem account_step (hc : CInv s) (hs : Step s s') : s.account.Perm s'.account := by
  cases hs
  case a1ok t hlt hloc hg =>
    -- the thread's pubs move from `pending` to the open batch; no outcome is set while entry is open
    have hopen : s.outcomeSet = false := (hc.openPh (no_exec_of_a1 hc t hloc hg)).1
    have hx : (s.th[t]).pending = (s.get t).pubs ++ (s.get t).todo.flatten := by
      rw [← get_eq_getElem s t hlt, pending_of hloc]; simp [Loc.preAppend]
    have hy : TS.pending { s.get t with loc := Loc.a2, idx := s.blen } = (s.get t).todo.flatten := by
      simp [TS.pending, Loc.preAppend]
    have hp := flatMap_set_perm s.th t { s.get t with loc := Loc.a2, idx := s.blen } TS.pending (s.get t).pubs hlt (by rw [hx, hy])
    simp only [St.account, St.handed, St.openBatch, St.set, St.outcomeSet] at *
    simp only [hopen, Bool.false_eq_true, ↓reduceIte]
    rw [List.append_assoc, List.append_assoc, List.append_assoc]
    exact List.Perm.append_left _ (List.Perm.append_left _ hp)
  case b3ok t hlt hloc hg =>
    have hopen := outcome_unset_at_b3 hc t hloc
    have hpe := set_pending_eq s t hlt { s.get t with loc := Loc.b4 } rfl rfl (by rw [hloc]; rfl)
    simp only [St.account, St.handed, St.openBatch, St.outcomeSet, St.at, St.set, St.get] at *
    simp only [hopen, Bool.false_eq_true, ↓reduceIte, Option.isSome_some, Bool.true_or, List.flatMap_append, List.flatMap_cons,
      List.flatMap_nil, List.append_nil]
    rw [hpe]
  case b3fail t hlt hloc hg =>
    have hopen := outcome_unset_at_b3 hc t hloc
    have hpe := set_pending_eq s t hlt { s.get t with loc := Loc.b4 } rfl rfl (by rw [hloc]; rfl)
    simp only [St.account, St.handed, St.openBatch, St.outcomeSet, St.at, St.set, St.get] at *
    simp only [hopen, Bool.false_eq_true, ↓reduceIte, Option.isSome_some, Bool.or_true, List.flatMap_append, List.flatMap_cons,
      List.flatMap_nil, List.append_nil]
    rw [hpe]
  case g4 t hlt hloc hg =>
    have hset' : s.outcomeSet = true := hc.outcome.mpr ⟨t, by simp [TS.inOut, TS.inExec, hloc, Loc.execOnly, Loc.outReg]⟩
    have hpe := set_pending_eq s t hlt { s.get t with loc := Loc.g5 } rfl rfl (by rw [hloc]; rfl)
    simp only [St.account, St.handed, St.openBatch, St.outcomeSet, St.at, St.set, St.get] at *
    simp only [hset', ↓reduceIte, Option.isSome_none, Bool.or_self, Bool.false_eq_true, List.append_nil]
    rw [hpe]
  case start t hlt hloc hg =>
    have hpe : ∀ y : TS, y = { s.get t with loc := .a0, pubs := (s.get t).todo.headD [], todo := (s.get t).todo.tail, exec := false, loc_res := none, idx := 0 } →
        (s.th.set t y).flatMap TS.pending = s.th.flatMap TS.pending := by
      intro y hy
      subst hy
      apply flatMap_set_eq _ _ _ _ hlt
      rw [← get_eq_getElem s t hlt, pending_of hloc]
      simp only [TS.pending, Loc.preAppend, ↓reduceIte, Bool.false_eq_true, List.nil_append]
      cases htd : (s.get t).todo with
      | nil => exact absurd htd hg
      | cons a l => simp
    simp only [St.account, St.handed, St.openBatch, St.outcomeSet, St.set] at *
    rw [hpe _ rfl]
    exact List.Perm.refl _
  all_goals (
    rename_i t hlt hloc hg
    simp only [St.account, St.handed, St.openBatch, St.outcomeSet, St.at, St.set]
    apply List.Perm.of_eq
    congr 1
    symm
    apply set_pending_eq s t hlt
    · rfl
    · rfl
    · simp only [St.get] at hloc ⊢; rw [hloc]; rfl)
end

theorem account_init (th0 : List TS) (h0 : ∀ x ∈ th0, x.loc = .idle) :
    St.account { th := th0 } = th0.flatMap (fun x => x.todo.flatten) := by
  simp only [St.account, St.handed, St.openBatch, St.outcomeSet, List.flatMap_nil, List.nil_append]
  simp only [Option.isSome_none, Bool.or_self, Bool.false_eq_true, ↓reduceIte, List.nil_append]
  induction th0 with
  | nil => rfl
  | cons x l ih =>
    simp only [List.flatMap_cons]
    rw [ih (fun y hy => h0 y (List.mem_cons_of_mem _ hy))]
    simp [TS.pending, h0 x (by simp), Loc.preAppend]

/-- **Conservation**: in every reachable state the account is a permutation of all pubs of all calls -/
theorem account_reachable (th0 : List TS) (h0 : ∀ x ∈ th0, x.loc = .idle) {s : St} (hr : Reachable th0 s) :
    s.account.Perm (th0.flatMap (fun x => x.todo.flatten)) := by
  induction hr with
  | init => rw [account_init th0 h0]
  | next a hprev hstep ih =>
    have hc := cinv_reachable th0 h0 hprev
    exact (account_step hc (step_sound _ _ a hstep)).symm.trans ih

end Runner
