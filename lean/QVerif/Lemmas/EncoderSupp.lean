import QVerif.Lemmas.EncoderPoly
import QVerif.Lemmas.Encoder
import QVerif.Lemmas.EnergyTerms

/-! The operator built by the encoder only mentions qubits below the reported qubit count. -/

namespace QVerif.Encoder

/-- every `Z` of every term acts on a qubit below `n` -/
def Supp (p : Poly) (n : Nat) : Prop := ∀ t ∈ p, ∀ q ∈ t.2, q < n

theorem supp_nil (n : Nat) : Supp [] n := by intro t ht; cases ht
theorem supp_pconst (c : Rat) (n : Nat) : Supp (pconst c) n := by
  intro t ht q hq; simp only [pconst, List.mem_singleton] at ht; subst ht; cases hq
theorem supp_pz {q n : Nat} (h : q < n) : Supp (pz q) n := by
  intro t ht q' hq; simp only [pz, List.mem_singleton] at ht; subst ht
  simp only [List.mem_singleton] at hq; omega
theorem supp_padd {p q : Poly} {n : Nat} (hp : Supp p n) (hq : Supp q n) : Supp (padd p q) n := by
  intro t ht; rcases List.mem_append.mp ht with h | h
  · exact hp t h
  · exact hq t h
theorem supp_pscale (c : Rat) {p : Poly} {n : Nat} (hp : Supp p n) : Supp (pscale c p) n := by
  intro t ht q hq
  obtain ⟨t', ht', rfl⟩ := List.mem_map.mp ht
  exact hp t' ht' q hq
theorem supp_pmul {p q : Poly} {n : Nat} (hp : Supp p n) (hq : Supp q n) : Supp (pmul p q) n := by
  intro t ht x hx
  obtain ⟨a, ha, hta⟩ := List.mem_flatMap.mp ht
  obtain ⟨b, hb, rfl⟩ := List.mem_map.mp hta
  rcases List.mem_append.mp hx with h | h
  · exact hp a ha x h
  · exact hq b hb x h
theorem supp_psum {ps : List Poly} {n : Nat} (h : ∀ p ∈ ps, Supp p n) : Supp (psum ps) n := by
  intro t ht
  obtain ⟨p, hp, htp⟩ := List.mem_flatten.mp ht
  exact h p hp t htp

theorem supp_zdP {v : Var} {n k : Nat} (hv : v.qstart + v.nq ≤ n) (hk : k ≤ v.nq + 1) : Supp (zdP v k) n := by
  unfold zdP
  split
  · exact supp_pconst _ _
  · split
    · exact supp_pconst _ _
    · exact supp_pz (by omega)

theorem supp_valueTermP {v : Var} {n idx : Nat} (hv : v.qstart + v.nq ≤ n) (hi : idx ≤ v.nq) : Supp (valueTermP v idx) n := by
  unfold valueTermP
  split
  · exact supp_pconst _ _
  · exact supp_pscale _ (supp_padd (supp_zdP hv (by omega)) (supp_pscale _ (supp_zdP hv (by omega))))

theorem supp_viabilityP {v : Var} {n : Nat} (hv : v.qstart + v.nq ≤ n) : Supp (viabilityP v) n := by
  unfold viabilityP
  split
  · exact supp_pscale _ (supp_pconst _ _)
  · apply supp_psum
    intro p hp
    rcases List.mem_append.mp hp with h | h
    · obtain ⟨k, hk, rfl⟩ := List.mem_map.mp h
      have := List.mem_range.mp hk
      exact supp_pscale _ (supp_padd (supp_pconst _ _) (supp_pscale _ (supp_pmul (supp_zdP hv (by omega)) (supp_zdP hv (by omega)))))
    · simp only [List.mem_singleton] at h; subst h; exact supp_pconst _ _

theorem mem_values {v : Var} {s : Nat} (h : s ∈ values v) : s - v.lo ≤ v.nq := by
  simp only [values, List.mem_map, List.mem_range] at h
  obtain ⟨i, hi, rfl⟩ := h
  simp only [Var.nq]; omega

theorem precPairs_mem {a b : OpVar} {p : Nat × Nat} (h : p ∈ precPairs a b) : p.1 ∈ values a.var ∧ p.2 ∈ values b.var := by
  unfold precPairs at h
  split at h
  · cases h
  · obtain ⟨s1, h1, h2⟩ := List.mem_flatMap.mp h
    obtain ⟨s2, h3, h4⟩ := List.mem_filterMap.mp h2
    split at h4
    · cases h4; exact ⟨h1, h3⟩
    · cases h4

theorem ovlPairs_mem {a b : OpVar} {p : Nat × Nat} (h : p ∈ ovlPairs a b) : p.1 ∈ values a.var ∧ p.2 ∈ values b.var := by
  unfold ovlPairs at h
  split at h
  · cases h
  · split at h
    · cases h
    · obtain ⟨s1, h1, h2⟩ := List.mem_flatMap.mp h
      obtain ⟨s2, h3, h4⟩ := List.mem_filterMap.mp h2
      split at h4
      · cases h4; exact ⟨h1, h3⟩
      · cases h4

/-- a pair term whose pairs are values of its two variables -/
def PairsInRange (t : PairTerm) : Prop := ∀ p ∈ t.pairs, p.1 ∈ values t.a.var ∧ p.2 ∈ values t.b.var

theorem supp_pairTermP {t : PairTerm} {n : Nat} (ha : t.a.var.qstart + t.a.var.nq ≤ n) (hb : t.b.var.qstart + t.b.var.nq ≤ n)
    (hr : PairsInRange t) : Supp (pairTermP t) n := by
  unfold pairTermP
  apply supp_psum
  intro p hp
  obtain ⟨pr, hpr, rfl⟩ := List.mem_map.mp hp
  obtain ⟨s1, s2⟩ := pr
  have := hr (s1, s2) hpr
  exact supp_pmul (supp_valueTermP ha (mem_values this.1)) (supp_valueTermP hb (mem_values this.2))

/-- variables tiled from `q` lie inside `[q, q + total)` -/
theorem tiled_range : ∀ (vs : List Var) (q : Nat), Tiled q vs → ∀ v ∈ vs, q ≤ v.qstart ∧ v.qstart + v.nq ≤ q + totalNq vs
  | [], _, _, v, hv => by cases hv
  | w :: t, q, ht, v, hv => by
      obtain ⟨h1, h2⟩ := ht
      simp only [totalNq, List.map_cons, List.sum_cons]
      rcases List.mem_cons.mp hv with rfl | hv
      · omega
      · have := tiled_range t (q + w.nq) h2 v hv
        simp only [totalNq] at this
        omega

/-- **the operator acts on the reported qubits only** -/
theorem energyPolyOf_supp (pen : Penalties) (inst : EInst) (limit : Nat) (vars : List (List Var))
    (h : prepare inst limit = .ok vars) : Supp (energyPolyOf pen inst vars limit) (nQubits vars) := by
  obtain ⟨_, ht, _, _, _⟩ := prepareFrom_spec limit inst 0 vars h
  have hok := opVars_ok inst limit vars h
  have hrange : ∀ x ∈ (opVars inst vars).flatten, x.var.qstart + x.var.nq ≤ nQubits vars := by
    intro x hx
    have := (tiled_range vars.flatten 0 ht x.var (hok x hx).mem).2
    simpa [nQubits, totalNq] using this
  have hpt : ∀ t ∈ precTerms (opVars inst vars), Supp (pairTermP t) (nQubits vars) := by
    intro t htm
    obtain ⟨ha, hb, hp⟩ := precTerms_spec _ t htm
    exact supp_pairTermP (hrange _ ha) (hrange _ hb) (by intro p hpm; rw [hp] at hpm; exact precPairs_mem hpm)
  have hot : ∀ t ∈ ovlTerms (opVars inst vars), Supp (pairTermP t) (nQubits vars) := by
    intro t htm
    obtain ⟨ha, hb, hp⟩ := ovlTerms_spec _ t htm
    exact supp_pairTermP (hrange _ ha) (hrange _ hb) (by intro p hpm; rw [hp] at hpm; exact ovlPairs_mem hpm)
  unfold energyPolyOf
  refine supp_padd (supp_padd (supp_padd (supp_padd ?_ ?_) ?_) ?_) ?_
  · apply supp_pscale; apply supp_psum
    intro p hp; obtain ⟨t, htm, rfl⟩ := List.mem_map.mp hp; exact hpt t htm
  · apply supp_pscale; apply supp_psum
    intro p hp; obtain ⟨t, htm, rfl⟩ := List.mem_map.mp hp; exact hot t htm
  · apply supp_pscale; apply supp_psum
    intro p hp; obtain ⟨x, hx, rfl⟩ := List.mem_map.mp hp
    exact supp_pscale _ (supp_viabilityP (hrange x hx))
  · apply supp_pscale
    unfold makespanTermP
    apply supp_psum
    intro p hp
    obtain ⟨row, hrow, rfl⟩ := List.mem_map.mp hp
    cases hl : row.getLast? with
    | none => exact supp_nil _
    | some x =>
      simp only
      have hx : x ∈ (opVars inst vars).flatten := List.mem_flatten.mpr ⟨row, hrow, List.mem_of_getLast? hl⟩
      apply supp_psum
      intro q hq
      obtain ⟨s, hs, rfl⟩ := List.mem_map.mp hq
      exact supp_pscale _ (supp_valueTermP (hrange x hx) (mem_values hs))
  · apply supp_pscale
    unfold earlyStartTermP
    apply supp_psum
    intro p hp
    obtain ⟨x, hx, rfl⟩ := List.mem_map.mp hp
    apply supp_psum
    intro q hq
    obtain ⟨i, hi, rfl⟩ := List.mem_map.mp hq
    split
    · exact supp_nil _
    · have := List.mem_range.mp hi
      exact supp_pscale _ (supp_valueTermP (hrange x hx) (by simp only [Var.nq]; omega))

end QVerif.Encoder
