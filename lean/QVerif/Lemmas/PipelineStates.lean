import QVerif.Model.Pipeline

/-! Lemmas for the layout invariance on pure states (C03). -/

namespace QVerif.Pipeline

theorem act1_I (b : Bool) : act1 .I b = (0, b) := rfl

/-! ### setting one position -/

theorem phase_set : ∀ (L : List Pauli) (B : Bits) (k : Nat) (p : Pauli) (b : Bool), L.length = B.length →
    L[k]? = some .I → phase (L.set k p) (B.set k b) = phase L B + (act1 p b).1
  | [], _, k, _, _, _, h => by simp at h
  | q :: L, [], _, _, _, hl, _ => by simp at hl
  | q :: L, c :: B, 0, p, b, _, h => by
      simp only [List.getElem?_cons_zero, Option.some.injEq] at h
      subst h
      simp only [List.set_cons_zero, phase, act1_I]
      omega
  | q :: L, c :: B, k + 1, p, b, hl, h => by
      simp only [List.getElem?_cons_succ] at h
      simp only [List.set_cons_succ, phase]
      rw [phase_set L B k p b (by simpa using hl) h]
      omega

theorem flip_set : ∀ (L : List Pauli) (B : Bits) (k : Nat) (p : Pauli) (b : Bool), L.length = B.length →
    L[k]? = some .I → flip (L.set k p) (B.set k b) = (flip L B).set k (act1 p b).2
  | [], _, k, _, _, _, h => by simp at h
  | q :: L, [], _, _, _, hl, _ => by simp at hl
  | q :: L, c :: B, 0, p, b, _, h => by
      simp only [List.set_cons_zero, flip]
  | q :: L, c :: B, k + 1, p, b, hl, h => by
      simp only [List.getElem?_cons_succ] at h
      simp only [List.set_cons_succ, flip]
      rw [flip_set L B k p b (by simpa using hl) h]

theorem flip_length : ∀ (L : List Pauli) (B : Bits), (flip L B).length = B.length
  | [], B => by cases B <;> simp [flip]
  | _ :: _, [] => by simp [flip]
  | _ :: L, _ :: B => by simp [flip, flip_length L B]

theorem flip_getElem?_I : ∀ (L : List Pauli) (B : Bits) (k : Nat), L.length = B.length → L[k]? = some .I → (flip L B)[k]? = B[k]?
  | [], _, k, _, h => by simp at h
  | q :: L, [], _, hl, _ => by simp at hl
  | q :: L, c :: B, 0, _, h => by
      simp only [List.getElem?_cons_zero, Option.some.injEq] at h
      subst h
      simp [flip, act1_I]
  | q :: L, c :: B, k + 1, hl, h => by
      simp only [List.getElem?_cons_succ] at h
      simp only [flip, List.getElem?_cons_succ]
      exact flip_getElem?_I L B k (by simpa using hl) h

theorem phase_replicate : ∀ (m : Nat) (B : Bits), phase (List.replicate m .I) B = 0
  | 0, B => by cases B <;> simp [phase]
  | m + 1, [] => by simp [List.replicate_succ, phase]
  | m + 1, b :: B => by simp [List.replicate_succ, phase, act1_I, phase_replicate m B]

theorem flip_replicate : ∀ (m : Nat) (B : Bits), flip (List.replicate m .I) B = B
  | 0, B => by cases B <;> simp [flip]
  | m + 1, [] => by simp [List.replicate_succ, flip]
  | m + 1, b :: B => by simp [List.replicate_succ, flip, act1_I, flip_replicate m B]

/-! ### scattering -/

theorem scatter_phase : ∀ (ps : List Pauli) (b : Bits) (final : List Nat) (acc : List Pauli) (accB : Bits),
    ps.length = final.length → b.length = final.length → acc.length = accB.length → final.Nodup →
    (∀ k ∈ final, acc[k]? = some .I) →
    phase (scatter ps final acc) (scatter b final accB) = phase acc accB + phase ps b
  | [], b, final, acc, accB, h1, h2, _, _, _ => by
      have hf : final = [] := by simpa using h1.symm
      subst hf
      have hb : b = [] := by simpa using h2
      subst hb
      simp [scatter, phase]
  | p :: ps, [], final, _, _, h1, h2, _, _, _ => by
      have hf : final = [] := by simpa using h2.symm
      subst hf
      simp at h1
  | p :: ps, c :: bs, [], _, _, h1, _, _, _, _ => by simp at h1
  | p :: ps, c :: bs, k :: ks, acc, accB, h1, h2, h3, hn, hI => by
      simp only [scatter]
      have hnd := List.nodup_cons.mp hn
      rw [scatter_phase ps bs ks (acc.set k p) (accB.set k c) (by simpa using h1) (by simpa using h2) (by simpa using h3) hnd.2]
      · rw [phase_set acc accB k p c h3 (hI k (by simp))]
        simp only [phase]
        omega
      · intro k' hk'
        have hne : k ≠ k' := fun h => hnd.1 (h ▸ hk')
        rw [List.getElem?_set_ne hne]
        exact hI k' (by simp [hk'])

theorem scatter_flip : ∀ (ps : List Pauli) (b : Bits) (final : List Nat) (acc : List Pauli) (accB : Bits),
    ps.length = final.length → b.length = final.length → acc.length = accB.length → final.Nodup →
    (∀ k ∈ final, acc[k]? = some .I) →
    flip (scatter ps final acc) (scatter b final accB) = scatter (flip ps b) final (flip acc accB)
  | [], b, final, acc, accB, h1, h2, _, _, _ => by
      have hf : final = [] := by simpa using h1.symm
      subst hf
      have hb : b = [] := by simpa using h2
      subst hb
      simp [scatter, flip]
  | p :: ps, [], final, _, _, h1, h2, _, _, _ => by
      have hf : final = [] := by simpa using h2.symm
      subst hf
      simp at h1
  | p :: ps, c :: bs, [], _, _, h1, _, _, _, _ => by simp at h1
  | p :: ps, c :: bs, k :: ks, acc, accB, h1, h2, h3, hn, hI => by
      simp only [scatter, flip]
      have hnd := List.nodup_cons.mp hn
      rw [scatter_flip ps bs ks (acc.set k p) (accB.set k c) (by simpa using h1) (by simpa using h2) (by simpa using h3) hnd.2]
      · rw [flip_set acc accB k p c h3 (hI k (by simp))]
      · intro k' hk'
        have hne : k ≠ k' := fun h => hnd.1 (h ▸ hk')
        rw [List.getElem?_set_ne hne]
        exact hI k' (by simp [hk'])

/-! ### reading a scattered list back -/

theorem scatter_length {α} : ∀ (xs : List α) (ks : List Nat) (acc : List α), (scatter xs ks acc).length = acc.length
  | [], _, acc => by simp [scatter]
  | _ :: _, [], acc => by simp [scatter]
  | x :: xs, k :: ks, acc => by simp [scatter, scatter_length xs ks (acc.set k x)]

theorem scatter_getElem?_not_mem {α} : ∀ (xs : List α) (ks : List Nat) (acc : List α) (k : Nat), k ∉ ks →
    (scatter xs ks acc)[k]? = acc[k]?
  | [], _, acc, _, _ => by simp [scatter]
  | _ :: _, [], acc, _, _ => by simp [scatter]
  | x :: xs, k' :: ks, acc, k, h => by
      simp only [scatter]
      have hne : k' ≠ k := fun e => h (by simp [e])
      rw [scatter_getElem?_not_mem xs ks (acc.set k' x) k (fun hm => h (by simp [hm])), List.getElem?_set_ne hne]

theorem scatter_getElem? {α} : ∀ (xs : List α) (ks : List Nat) (acc : List α), xs.length = ks.length → ks.Nodup →
    (∀ k ∈ ks, k < acc.length) → ∀ (i : Nat) (h1 : i < ks.length) (h2 : i < xs.length), (scatter xs ks acc)[ks[i]]? = some xs[i]
  | [], ks, acc, hl, _, _, i, h1, h2 => by simp at h2
  | x :: xs, [], acc, hl, _, _, i, h1, _ => by simp at h1
  | x :: xs, k :: ks, acc, hl, hn, hlt, 0, _, _ => by
      simp only [scatter, List.getElem_cons_zero]
      have hnd := List.nodup_cons.mp hn
      rw [scatter_getElem?_not_mem xs ks (acc.set k x) k hnd.1]
      rw [List.getElem?_set_self (hlt k (by simp))]
  | x :: xs, k :: ks, acc, hl, hn, hlt, i + 1, h1, h2 => by
      simp only [scatter, List.getElem_cons_succ]
      have hnd := List.nodup_cons.mp hn
      exact scatter_getElem? xs ks (acc.set k x) (by simpa using hl) hnd.2
        (fun k' hk' => by rw [List.length_set]; exact hlt k' (by simp [hk'])) i (by simpa using h1) (by simpa using h2)

theorem place_injective (final : List Nat) (n m : Nat) (hl : LayoutOk final n m) (b b' : Bits) (hb : b.length = n) (hb' : b'.length = n)
    (h : place b final m = place b' final m) : b = b' := by
  apply List.ext_getElem (by rw [hb, hb'])
  intro i h1 h2
  have hi : i < final.length := by rw [hl.len, ← hb]; exact h1
  have e1 := scatter_getElem? b final (List.replicate m false) (by rw [hb, hl.len]) hl.nodup
    (fun k hk => by simpa using hl.lt k hk) i hi h1
  have e2 := scatter_getElem? b' final (List.replicate m false) (by rw [hb', hl.len]) hl.nodup
    (fun k hk => by simpa using hl.lt k hk) i hi h2
  unfold place at h
  rw [h] at e1
  rw [e1] at e2
  exact Option.some.inj e2

end QVerif.Pipeline
