import QVerif.Model.Encoder

/-! Helper lemmas for the encoder cluster (C15, C01, C02): structure of the prepared variables, decoding. -/

namespace QVerif.Encoder

/-! ### domain-wall windows -/

/-- the window that encodes domain-wall index `k` on `n` qubits: `k` ones followed by zeros -/
def wallWindow (n k : Nat) : Bits := List.replicate k true ++ List.replicate (n - k) false

theorem decodeWindow_wall (n k : Nat) (hk : k ≤ n) : decodeWindow (wallWindow n k) = some k := by
  induction k generalizing n with
  | zero =>
    unfold wallWindow
    simp only [List.replicate_zero, List.nil_append, Nat.sub_zero]
    cases n with
    | zero => rfl
    | succ m => simp [List.replicate_succ, decodeWindow]
  | succ j ih =>
    cases n with
    | zero => omega
    | succ m =>
      have : wallWindow (m + 1) (j + 1) = true :: wallWindow m j := by
        unfold wallWindow; simp [List.replicate_succ]
      rw [this]
      simp only [decodeWindow, ih m (by omega), Option.map_some]

theorem decodeWindow_some (w : Bits) (k : Nat) (h : decodeWindow w = some k) :
    k ≤ w.length ∧ w = wallWindow w.length k := by
  induction w generalizing k with
  | nil => simp only [decodeWindow, Option.some.injEq] at h; subst h; simp [wallWindow]
  | cons b t ih =>
    cases b with
    | true =>
      simp only [decodeWindow, Option.map_eq_some_iff] at h
      obtain ⟨j, hj, rfl⟩ := h
      obtain ⟨h1, h2⟩ := ih j hj
      refine ⟨by simp; omega, ?_⟩
      have : wallWindow (t.length + 1) (j + 1) = true :: wallWindow t.length j := by
        unfold wallWindow; simp [List.replicate_succ]
      rw [List.length_cons, this, ← h2]
    | false =>
      simp only [decodeWindow] at h
      split at h
      · cases h
      · rename_i hany
        cases h
        refine ⟨by simp, ?_⟩
        unfold wallWindow
        simp only [List.replicate_zero, List.nil_append, Nat.sub_zero, List.length_cons, List.replicate_succ,
          List.cons.injEq, true_and]
        apply List.ext_getElem
        · simp
        · intro i h1 h2
          simp only [List.getElem_replicate]
          have : ¬ (t[i] = true) := by
            intro ht; apply hany
            simp only [List.any_eq_true, id]
            exact ⟨t[i], List.getElem_mem h1, ht⟩
          simpa using this

/-- a window decodes to index `k` exactly when it is `k` ones followed by zeros -/
theorem decodeWindow_eq_some_iff (w : Bits) (k : Nat) :
    decodeWindow w = some k ↔ k ≤ w.length ∧ w = wallWindow w.length k := by
  constructor
  · exact decodeWindow_some w k
  · rintro ⟨h1, h2⟩; rw [h2]; exact decodeWindow_wall _ _ h1

/-! ### structure of the prepared variables -/

/-- the variables occupy consecutive qubit ranges starting at `q` -/
def Tiled : Nat → List Var → Prop
  | _, [] => True
  | q, v :: t => v.qstart = q ∧ Tiled (q + v.nq) t

def totalNq (vs : List Var) : Nat := (vs.map Var.nq).sum

theorem tiled_append {q : Nat} {a b : List Var} (ha : Tiled q a) (hb : Tiled (q + totalNq a) b) : Tiled q (a ++ b) := by
  induction a generalizing q with
  | nil => simpa [totalNq] using hb
  | cons v t ih =>
    obtain ⟨h1, h2⟩ := ha
    refine ⟨h1, ih h2 ?_⟩
    simpa [totalNq, Nat.add_assoc] using hb

/-- every variable of a job: number of values and window position -/
theorem jobVars_spec (limit total : Nat) (hle : total ≤ limit) : ∀ (ops : List EOp) (q head : Nat),
    (jobVars limit total ops q head).length = ops.length ∧
    Tiled q (jobVars limit total ops q head) ∧
    totalNq (jobVars limit total ops q head) = ops.length * (limit - total) ∧
    ∀ v ∈ jobVars limit total ops q head, v.nvals = limit - total + 1
  | [], q, head => by simp [jobVars, Tiled, totalNq]
  | o :: rest, q, head => by
      obtain ⟨h1, h2, h3, h4⟩ := jobVars_spec limit total hle rest (q + (limit - total + 1 - 1)) (head + o.dur)
      refine ⟨?_, ?_, ?_, ?_⟩
      · simp only [jobVars, List.length_cons, h1]
      · simp only [jobVars]
        exact ⟨rfl, by simpa [Var.nq] using h2⟩
      · simp only [jobVars, totalNq, List.map_cons, List.sum_cons, Var.nq, List.length_cons] at h3 ⊢
        rw [h3, Nat.add_mul]; omega
      · intro v hv
        simp only [jobVars, List.mem_cons] at hv
        rcases hv with rfl | hv
        · rfl
        · exact h4 v hv

/-- `lo` of the `i`-th variable of a job is the summed duration of the preceding operations -/
theorem jobVars_lo (limit total : Nat) : ∀ (ops : List EOp) (q head i : Nat) (hi : i < (jobVars limit total ops q head).length),
    ((jobVars limit total ops q head)[i]).lo = head + ((ops.take i).map EOp.dur).sum
  | [], _, _, i, hi => by simp [jobVars] at hi
  | o :: rest, q, head, 0, _ => by simp [jobVars]
  | o :: rest, q, head, i + 1, hi => by
      simp only [jobVars, List.getElem_cons_succ, List.take_succ_cons, List.map_cons, List.sum_cons]
      rw [jobVars_lo limit total rest _ _ i (by simpa [jobVars] using hi)]
      omega

theorem prepareFrom_spec (limit : Nat) : ∀ (inst : EInst) (q : Nat) (vars : List (List Var)),
    prepareFrom limit inst q = .ok vars →
      (∀ j ∈ inst, jobTotal j ≤ limit) ∧ Tiled q vars.flatten ∧
      totalNq vars.flatten = (inst.map (fun j => j.length * (limit - jobTotal j))).sum ∧
      vars.length = inst.length ∧
      ∀ i (h1 : i < inst.length) (h2 : i < vars.length), ∃ q', vars[i] = jobVars limit (jobTotal inst[i]) inst[i] q' 0
  | [], q, vars, h => by
      simp only [prepareFrom] at h; cases h
      simp [Tiled, totalNq]
  | j :: js, q, vars, h => by
      simp only [prepareFrom] at h
      split at h
      · cases h
      · rename_i hle
        split at h
        · cases h
        · rename_i rest hrest
          cases h
          obtain ⟨h1, h2, h3, h4, h5⟩ := prepareFrom_spec limit js _ rest hrest
          have hle' : jobTotal j ≤ limit := by omega
          obtain ⟨g1, g2, g3, g4⟩ := jobVars_spec limit (jobTotal j) hle' j q 0
          refine ⟨?_, ?_, ?_, ?_, ?_⟩
          · intro j' hj'
            rcases List.mem_cons.mp hj' with rfl | hj'
            · exact hle'
            · exact h1 j' hj'
          · simp only [List.flatten_cons]
            apply tiled_append g2
            rw [g3]; exact h2
          · simp only [List.flatten_cons, totalNq, List.map_append, List.sum_append, List.map_cons, List.sum_cons] at *
            rw [g3, h3]
          · simp [h4]
          · intro i hi1 hi2
            cases i with
            | zero => exact ⟨q, rfl⟩
            | succ k =>
              simp only [List.getElem_cons_succ]
              exact h5 k (by simpa using hi1) (by simpa using hi2)

theorem prepareFrom_error (limit : Nat) : ∀ (inst : EInst) (q : Nat) (e : Err),
    prepareFrom limit inst q = .error e → e = .limitTooShort ∧ ∃ j ∈ inst, limit < jobTotal j
  | [], q, e, h => by simp [prepareFrom] at h
  | j :: js, q, e, h => by
      simp only [prepareFrom] at h
      split at h
      · rename_i hgt; cases h; exact ⟨rfl, j, by simp, hgt⟩
      · split at h
        · rename_i e' he'
          cases h
          obtain ⟨h1, j', hj', hlt⟩ := prepareFrom_error limit js _ _ he'
          exact ⟨h1, j', List.mem_cons_of_mem _ hj', hlt⟩
        · cases h

/-! ### windows of tiled variables -/

theorem windows_flatten (bits : Bits) : ∀ (vs : List Var) (q : Nat), Tiled q vs →
    (vs.map (fun v => window v bits)).flatten = (bits.drop q).take (totalNq vs)
  | [], q, _ => by simp [totalNq]
  | v :: t, q, ⟨h1, h2⟩ => by
      simp only [List.map_cons, List.flatten_cons, totalNq, List.sum_cons]
      rw [windows_flatten bits t _ h2]
      unfold window
      rw [h1, List.take_add, List.drop_drop]
      rfl

/-- two bitstrings of the full length with the same windows are equal -/
theorem bits_eq_of_windows (vs : List Var) (b1 b2 : Bits) (ht : Tiled 0 vs)
    (h1 : b1.length = totalNq vs) (h2 : b2.length = totalNq vs)
    (hw : ∀ v ∈ vs, window v b1 = window v b2) : b1 = b2 := by
  have e1 := windows_flatten b1 vs 0 ht
  have e2 := windows_flatten b2 vs 0 ht
  have : vs.map (fun v => window v b1) = vs.map (fun v => window v b2) := List.map_congr_left hw
  rw [this, e2] at e1
  simp only [List.drop_zero] at e1
  rw [← h1, List.take_length] at e1
  rw [h1, ← h2, List.take_length] at e1
  exact e1.symm

/-- constructing a bitstring from prescribed windows -/
theorem window_of_pieces : ∀ (vs : List Var) (pieces : List Bits) (q : Nat) (pre : Bits),
    Tiled q vs → pre.length = q → vs.length = pieces.length →
    (∀ i (h1 : i < vs.length) (h2 : i < pieces.length), (pieces[i]).length = (vs[i]).nq) →
    ∀ i (h1 : i < vs.length) (h2 : i < pieces.length), window vs[i] (pre ++ pieces.flatten) = pieces[i]
  | [], _, _, _, _, _, _, _, i, h1, _ => by simp at h1
  | v :: t, [], _, _, _, _, hl, _, _, _, _ => by simp at hl
  | v :: t, p :: ps, q, pre, ⟨hq, ht⟩, hpre, hl, hlen, i, h1, h2 => by
      have hp : p.length = v.nq := hlen 0 (by simp) (by simp)
      cases i with
      | zero =>
        simp only [List.getElem_cons_zero, List.flatten_cons]
        unfold window
        rw [hq, ← hpre, List.drop_left', ← hp]
        · simp
        · rfl
      | succ j =>
        simp only [List.getElem_cons_succ, List.flatten_cons]
        have := window_of_pieces t ps (q + v.nq) (pre ++ p) ht (by simp [hpre, hp]) (by simpa using hl)
          (fun i a b => hlen (i + 1) (by simp; omega) (by simp; omega)) j (by simpa using h1) (by simpa using h2)
        simpa [List.append_assoc] using this

end QVerif.Encoder
