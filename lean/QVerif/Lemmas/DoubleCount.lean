/-! Double counting of term/slot incidences (C01): the number of term ends that land in a duplicate-free set of
slots equals the sum over that set of the per-slot counts. Generic, core Lean only. -/

namespace QVerif.DoubleCount

variable {σ : Type} [DecidableEq σ]

/-- how many unit terms touch slot `n` (first or second end) -/
def cnt (units : List (σ × σ)) (n : σ) : Nat :=
  (units.filter (fun u => decide (u.1 = n))).length + (units.filter (fun u => decide (u.2 = n))).length

def ind (b : Bool) : Nat := if b then 1 else 0

def sumN {α : Type} (f : α → Nat) : List α → Nat
  | [] => 0
  | x :: xs => f x + sumN f xs

theorem sumN_mem_nodup (N : List σ) (hN : N.Nodup) (x : σ) :
    sumN (fun n => ind (decide (x = n))) N = ind (decide (x ∈ N)) := by
  induction N with
  | nil => simp [sumN, ind]
  | cons a t ih =>
    have hnd := List.nodup_cons.mp hN
    simp only [sumN, ih hnd.2]
    by_cases hxa : x = a
    · subst hxa
      have : x ∉ t := hnd.1
      simp [ind, this]
    · simp [ind, hxa]

theorem sumN_add {α : Type} (f g : α → Nat) (l : List α) : sumN (fun x => f x + g x) l = sumN f l + sumN g l := by
  induction l with
  | nil => rfl
  | cons a t ih => simp only [sumN, ih]; omega

theorem sumN_le {α : Type} (f g : α → Nat) (l : List α) (h : ∀ x ∈ l, f x ≤ g x) : sumN f l ≤ sumN g l := by
  induction l with
  | nil => exact Nat.le_refl _
  | cons a t ih =>
    simp only [sumN]
    have := h a (by simp)
    have := ih (fun x hx => h x (List.mem_cons_of_mem _ hx))
    omega

theorem sumN_append {α : Type} (f : α → Nat) (a b : List α) : sumN f (a ++ b) = sumN f a + sumN f b := by
  induction a with
  | nil => simp [sumN]
  | cons x t ih => simp only [List.cons_append, sumN, ih]; omega

theorem sumN_eq_sum_map {α : Type} (f : α → Nat) (l : List α) : sumN f l = (l.map f).sum := by
  induction l with
  | nil => rfl
  | cons a t ih => simp [sumN, ih]

/-- incidences of a unit term in the slot set `N` -/
def incid (N : List σ) (u : σ × σ) : Nat := ind (decide (u.1 ∈ N)) + ind (decide (u.2 ∈ N))

/-- **double counting** -/
theorem incidences_eq (units : List (σ × σ)) (N : List σ) (hN : N.Nodup) :
    sumN (incid N) units = sumN (cnt units) N := by
  unfold incid
  induction units with
  | nil =>
    simp only [sumN]
    induction N with
    | nil => rfl
    | cons a t ih => simp [sumN, cnt, ih (List.nodup_cons.mp hN).2]
  | cons u U ih =>
    simp only [sumN, ih]
    have h1 := sumN_mem_nodup N hN u.1
    have h2 := sumN_mem_nodup N hN u.2
    have hc : ∀ n, cnt (u :: U) n = ind (decide (u.1 = n)) + ind (decide (u.2 = n)) + cnt U n := by
      intro n
      simp only [cnt, List.filter_cons]
      by_cases e1 : u.1 = n <;> by_cases e2 : u.2 = n <;> simp [e1, e2, ind] <;> omega
    have : sumN (cnt (u :: U)) N =
        sumN (fun n => ind (decide (u.1 = n))) N + sumN (fun n => ind (decide (u.2 = n))) N + sumN (cnt U) N := by
      rw [← sumN_add, ← sumN_add]
      congr 1
      funext n
      exact hc n
    rw [this, h1, h2]

/-- if every slot `n ∈ N` is touched by at most `M n` unit terms, the incidences landing in `N` are at most `Σ_N M` -/
theorem incidences_le (units : List (σ × σ)) (N : List σ) (hN : N.Nodup) (M : σ → Nat)
    (hM : ∀ n ∈ N, cnt units n ≤ M n) :
    sumN (incid N) units ≤ sumN M N := by
  rw [incidences_eq units N hN]
  exact sumN_le _ _ N hM

end QVerif.DoubleCount
