import QVerif.Lemmas.EnergyTerms

/-! The energy of a fully decoded basis state, term by term (C01/C02). -/

namespace QVerif.Encoder

/-- the decoded start of an operation (0 if its variable does not decode) -/
def startOf (x : OpVar) (bits : Bits) : Nat := (decodeVar x.var bits).getD 0

/-- the pair (a, b) of consecutive operations of a job is out of order -/
def PrecViolated (t : PairTerm) (bits : Bits) : Prop := ¬ (startOf t.a bits + t.a.op.dur ≤ startOf t.b bits)

/-- the two operations (on one machine) overlap in time -/
def OvlViolated (t : PairTerm) (bits : Bits) : Prop :=
  startOf t.a bits < startOf t.b bits + t.b.op.dur ∧ startOf t.b bits < startOf t.a bits + t.a.op.dur

instance (t : PairTerm) (bits : Bits) : Decidable (PrecViolated t bits) := by unfold PrecViolated; infer_instance
instance (t : PairTerm) (bits : Bits) : Decidable (OvlViolated t bits) := by unfold OvlViolated; infer_instance

/-- all variables of the encoding decode on `bits` -/
def AllDecoded (ovs : List (List OpVar)) (bits : Bits) : Prop :=
  ∀ x ∈ ovs.flatten, ∃ k, DecodedAt x.var bits k

theorem startOf_decoded {x : OpVar} {bits : Bits} {k : Nat} (h : DecodedAt x.var bits k) : startOf x bits = x.var.lo + k := by
  unfold startOf; rw [h.decode]; rfl

/-- a precedence pair term on a decoded state is 1 if the pair is out of order and 0 otherwise -/
theorem precTerm_decoded (a b : OpVar) (bits : Bits) (ka kb : Nat) (ha : DecodedAt a.var bits ka) (hb : DecodedAt b.var bits kb) :
    pairTermValue ⟨a, b, precPairs a b⟩ bits = if PrecViolated ⟨a, b, precPairs a b⟩ bits then 1 else 0 := by
  unfold pairTermValue precPairs PrecViolated
  simp only [startOf_decoded ha, startOf_decoded hb]
  split
  · rename_i hearly
    simp only [List.map_nil, List.sum_nil]
    have : a.var.lo + ka + a.op.dur ≤ b.var.lo + kb := by
      have := ha.hk; have := ha.hn; simp only [Var.hi] at hearly; omega
    simp [this]
  · exact pair_sum_decoded ha hb (fun s1 s2 => ¬ (s1 + a.op.dur ≤ s2))

/-- an overlap pair term on a decoded state is 1 if the two operations overlap and 0 otherwise -/
theorem ovlTerm_decoded (a b : OpVar) (bits : Bits) (ka kb : Nat) (ha : DecodedAt a.var bits ka) (hb : DecodedAt b.var bits kb) :
    pairTermValue ⟨a, b, ovlPairs a b⟩ bits = if OvlViolated ⟨a, b, ovlPairs a b⟩ bits then 1 else 0 := by
  unfold pairTermValue ovlPairs OvlViolated
  simp only [startOf_decoded ha, startOf_decoded hb]
  split
  · rename_i hearly
    simp only [List.map_nil, List.sum_nil]
    have : ¬ (b.var.lo + kb < a.var.lo + ka + a.op.dur) := by
      have := ha.hk; have := ha.hn; simp only [Var.hi] at hearly; omega
    simp [this]
  · split
    · rename_i hearly
      simp only [List.map_nil, List.sum_nil]
      have : ¬ (a.var.lo + ka < b.var.lo + kb + b.op.dur) := by
        have := hb.hk; have := hb.hn; simp only [Var.hi] at hearly; omega
      simp [this]
    · exact pair_sum_decoded ha hb (fun s1 s2 => s1 < s2 + b.op.dur ∧ s2 < s1 + a.op.dur)

theorem sum_indicator_eq_count {α} (l : List α) (p : α → Prop) [DecidablePred p] :
    (l.map (fun t => if p t then (1 : Rat) else 0)).sum = ((l.filter (fun t => decide (p t))).length : Rat) := by
  induction l with
  | nil => simp
  | cons a t ih =>
    simp only [List.map_cons, List.sum_cons, List.filter_cons, ih]
    by_cases h : p a
    · simp only [h, ↓reduceIte, decide_true, List.length_cons]; push_cast; grind
    · simp only [h, ↓reduceIte, decide_false]; grind

/-- number of violated precedence pairs / overlapping pairs of the decoded schedule -/
def nPrecViolated (ovs : List (List OpVar)) (bits : Bits) : Nat :=
  ((precTerms ovs).filter (fun t => decide (PrecViolated t bits))).length
def nOvlViolated (ovs : List (List OpVar)) (bits : Bits) : Nat :=
  ((ovlTerms ovs).filter (fun t => decide (OvlViolated t bits))).length

theorem prec_sum_decoded (ovs : List (List OpVar)) (bits : Bits) (hd : AllDecoded ovs bits) :
    ((precTerms ovs).map (fun t => pairTermValue t bits)).sum = (nPrecViolated ovs bits : Rat) := by
  unfold nPrecViolated
  rw [← sum_indicator_eq_count]
  congr 1
  apply List.map_congr_left
  intro t ht
  obtain ⟨ha, hb, hp⟩ := precTerms_spec ovs t ht
  obtain ⟨ka, hka⟩ := hd t.a ha
  obtain ⟨kb, hkb⟩ := hd t.b hb
  have := precTerm_decoded t.a t.b bits ka kb hka hkb
  rw [← hp] at this
  exact this

theorem ovl_sum_decoded (ovs : List (List OpVar)) (bits : Bits) (hd : AllDecoded ovs bits) :
    ((ovlTerms ovs).map (fun t => pairTermValue t bits)).sum = (nOvlViolated ovs bits : Rat) := by
  unfold nOvlViolated
  rw [← sum_indicator_eq_count]
  congr 1
  apply List.map_congr_left
  intro t ht
  obtain ⟨ha, hb, hp⟩ := ovlTerms_spec ovs t ht
  obtain ⟨ka, hka⟩ := hd t.a ha
  obtain ⟨kb, hkb⟩ := hd t.b hb
  have := ovlTerm_decoded t.a t.b bits ka kb hka hkb
  rw [← hp] at this
  exact this

theorem viab_sum_decoded (ovs : List (List OpVar)) (bits : Bits) (hd : AllDecoded ovs bits) (c : OpVar → Rat) :
    (ovs.flatten.map (fun x => c x * viability x.var bits)).sum = 0 := by
  have : ovs.flatten.map (fun x => c x * viability x.var bits) = ovs.flatten.map (fun _ => (0 : Rat)) := by
    apply List.map_congr_left
    intro x hx
    obtain ⟨k, hk⟩ := hd x hx
    rw [viability_decoded x.var bits k hk.hk hk.hlen hk.hw]; grind
  rw [this]
  induction ovs.flatten with
  | nil => rfl
  | cons a t ih => simp only [List.map_cons, List.sum_cons, ih]; grind

end QVerif.Encoder
