import QVerif.Model.Criteria

/-! Helper lemmas for C13. -/

namespace QVerif.Criteria

@[simp] theorem ERat.lt_none (thr : Rat) : ERat.lt none thr = false := rfl
@[simp] theorem ERat.lt_some (x thr : Rat) : ERat.lt (some x) thr = decide (x < thr) := rfl

theorem ERat.max_lt_iff (a b : ERat) (thr : Rat) :
    (ERat.max a b).lt thr = true ↔ a.lt thr = true ∧ b.lt thr = true := by
  cases a with
  | none => simp [ERat.max]
  | some x =>
    cases b with
    | none => simp [ERat.max]
    | some y =>
      simp only [ERat.max, ERat.lt_some, decide_eq_true_eq]
      split <;> grind

theorem emax_lt_iff (l : List ERat) (thr : Rat) :
    (emax l).lt thr = true ↔ l ≠ [] ∧ ∀ x ∈ l, x.lt thr = true := by
  induction l with
  | nil => simp [emax]
  | cons a t ih =>
    cases t with
    | nil => simp [emax]
    | cons b t' =>
      have ih' : (emax (b :: t')).lt thr = true ↔ ∀ x ∈ b :: t', x.lt thr = true := by
        rw [ih]; simp
      have : emax (a :: b :: t') = ERat.max a (emax (b :: t')) := rfl
      rw [this, ERat.max_lt_iff, ih']
      simp

/-- the documented window condition on a list of measures -/
def WindowBelow (ms : List ERat) (allowed : Nat) (thr : Rat) : Prop :=
  allowed + 1 ≤ ms.length ∧ ∀ x ∈ ms.drop (ms.length - (allowed + 1)), x.lt thr = true

theorem decide_iff_plain (ms : List ERat) (allowed : Nat) (thr : Rat) :
    decide_ ms allowed thr = true ↔ WindowBelow ms allowed thr := by
  unfold decide_ WindowBelow window
  split
  · rename_i h; simp only [Bool.false_eq_true, false_iff, not_and]; intro h'; omega
  · rename_i h
    rw [emax_lt_iff]
    constructor
    · rintro ⟨_, h2⟩; exact ⟨by omega, h2⟩
    · rintro ⟨h1, h2⟩
      refine ⟨?_, h2⟩
      intro hnil
      have := congrArg List.length hnil
      simp only [List.length_drop, List.length_nil] at this
      omega

/-- pre-filling the history with `allowed + 1` infinities is the same as demanding `allowed + 1` real measures -/
theorem decide_iff_prefilled (ms : List ERat) (allowed : Nat) (thr : Rat) :
    decide_ (List.replicate (allowed + 1) none ++ ms) allowed thr = true ↔ WindowBelow ms allowed thr := by
  unfold decide_ WindowBelow window
  have hlen : (List.replicate (allowed + 1) (none : ERat) ++ ms).length = allowed + 1 + ms.length := by simp
  rw [hlen]
  have h1 : ¬ (allowed + 1 + ms.length < allowed + 1) := by omega
  simp only [h1, ↓reduceIte]
  have h2 : allowed + 1 + ms.length - (allowed + 1) = ms.length := by omega
  rw [h2, emax_lt_iff]
  by_cases hlt : allowed + 1 ≤ ms.length
  · have : (List.replicate (allowed + 1) (none : ERat) ++ ms).drop ms.length = ms.drop (ms.length - (allowed + 1)) := by
      rw [List.drop_append]
      have : (List.replicate (allowed + 1) (none : ERat)).drop ms.length = [] := by
        apply List.drop_eq_nil_of_le; simp; omega
      simp [this]
    rw [this]
    constructor
    · rintro ⟨_, h⟩; exact ⟨hlt, h⟩
    · rintro ⟨_, h⟩
      refine ⟨?_, h⟩
      intro hnil
      have := congrArg List.length hnil
      simp only [List.length_drop, List.length_nil] at this
      omega
  · constructor
    · rintro ⟨_, h⟩
      exfalso
      have hmem : (none : ERat) ∈ (List.replicate (allowed + 1) (none : ERat) ++ ms).drop ms.length := by
        rw [List.drop_append]
        apply List.mem_append_left
        rw [List.drop_replicate]
        apply List.mem_replicate.mpr
        exact ⟨by omega, rfl⟩
      have := h none hmem
      simp at this
    · rintro ⟨h, _⟩; exact absurd h hlt

/-! ### generic run lemma -/

section generic
variable {σ κ : Type} (check : σ → Eval → σ × Bool) (sum : Eval → κ) (m : κ → Eval → ERat)
  (lastOf : σ → Option κ) (histOf : σ → List ERat) (allowed : Nat) (thr : Rat)

/-- the documented change measures between consecutive evaluations -/
def measures : List Eval → List ERat
  | a :: b :: t => m (sum a) b :: measures (b :: t)
  | _ => []

theorem measures_snoc (p : List Eval) (e : Eval) :
    measures sum m (p ++ [e]) = measures sum m p ++
      (match p.getLast? with | none => [] | some l => [m (sum l) e]) := by
  induction p with
  | nil => simp [measures]
  | cons a t ih =>
    cases t with
    | nil => simp [measures]
    | cons b t' =>
      have : (a :: b :: t') ++ [e] = a :: (b :: (t' ++ [e])) := rfl
      rw [this]
      simp only [measures]
      have ih' : measures sum m (b :: (t' ++ [e])) = measures sum m (b :: t') ++
          (match (b :: t').getLast? with | none => [] | some l => [m (sum l) e]) := ih
      rw [ih']
      simp [List.getLast?_cons_cons]

/-- what every criterion's `check` does, abstractly -/
def StepLike (pre : List ERat) : Prop :=
  ∀ s e, (lastOf s = none → histOf s = pre) → lastOf (check s e).1 = some (sum e) ∧
    histOf (check s e).1 = (match lastOf s with | none => histOf s | some l => histOf s ++ [m l e]) ∧
    (check s e).2 = decide_ (histOf (check s e).1) allowed thr

theorem run_generic (pre : List ERat) (hstep : StepLike check sum m lastOf histOf allowed thr pre)
    (p rest : List Eval) (s : σ) (hl : lastOf s = p.getLast?.map sum) (hh : histOf s = pre ++ measures sum m p) :
    ∀ k (hk : k < (runCrit check s rest).length),
      (runCrit check s rest)[k] = decide_ (pre ++ measures sum m (p ++ rest.take (k + 1))) allowed thr := by
  induction rest generalizing p s with
  | nil => intro k hk; simp [runCrit] at hk
  | cons e rest ih =>
    intro k hk
    have hpre : lastOf s = none → histOf s = pre := by
      intro hn
      rw [hn] at hl
      have : p = [] := by
        cases p with
        | nil => rfl
        | cons a t =>
          have : ((a :: t).getLast?).isSome = true := by simp [List.getLast?_isSome]
          cases hg : (a :: t).getLast? with
          | none => simp [hg] at this
          | some v => simp [hg] at hl
      rw [hh, this]; simp [measures]
    obtain ⟨h1, h2, h3⟩ := hstep s e hpre
    have hh' : histOf (check s e).1 = pre ++ measures sum m (p ++ [e]) := by
      rw [h2, measures_snoc, hl, hh]
      cases p.getLast? <;> simp
    have hl' : lastOf (check s e).1 = (p ++ [e]).getLast?.map sum := by simp [h1]
    simp only [runCrit]
    cases k with
    | zero =>
      simp only [List.getElem_cons_zero, Nat.zero_add, List.take_succ_cons, List.take_zero]
      rw [h3, hh']
    | succ j =>
      simp only [List.getElem_cons_succ, List.take_succ_cons]
      have := ih (p ++ [e]) (check s e).1 hl' hh' j (by simpa [runCrit] using hk)
      rw [this]
      simp [List.append_assoc]

end generic

end QVerif.Criteria
