import QVerif.Model.EncoderPoly

/-! Evaluation lemmas for the operator representation of the JSSP Hamiltonian. -/

namespace QVerif.Encoder

@[simp] theorem evalPoly_nil (b : Bits) : evalPoly b [] = 0 := rfl
@[simp] theorem evalPoly_cons (b : Bits) (t : Rat × Mono) (p : Poly) :
    evalPoly b (t :: p) = t.1 * evalMono b t.2 + evalPoly b p := rfl
@[simp] theorem evalMono_nil (b : Bits) : evalMono b [] = 1 := rfl
@[simp] theorem evalMono_cons (b : Bits) (q : Nat) (m : Mono) : evalMono b (q :: m) = zval b q * evalMono b m := rfl

theorem evalMono_append (b : Bits) : ∀ m m' : Mono, evalMono b (m ++ m') = evalMono b m * evalMono b m'
  | [], m' => by simp [Rat.one_mul]
  | q :: m, m' => by simp [evalMono_append b m m', Rat.mul_assoc]

theorem evalPoly_append (b : Bits) : ∀ p q : Poly, evalPoly b (p ++ q) = evalPoly b p + evalPoly b q
  | [], q => by simp [Rat.zero_add]
  | t :: p, q => by simp [evalPoly_append b p q, Rat.add_assoc]

@[simp] theorem eval_padd (b : Bits) (p q : Poly) : evalPoly b (padd p q) = evalPoly b p + evalPoly b q :=
  evalPoly_append b p q

@[simp] theorem eval_pconst (b : Bits) (c : Rat) : evalPoly b (pconst c) = c := by
  simp [pconst, Rat.mul_one, Rat.add_zero]

@[simp] theorem eval_pz (b : Bits) (q : Nat) : evalPoly b (pz q) = zval b q := by
  simp [pz, Rat.mul_one, Rat.add_zero, Rat.one_mul]

@[simp] theorem eval_pscale (b : Bits) (c : Rat) : ∀ p : Poly, evalPoly b (pscale c p) = c * evalPoly b p
  | [] => by simp [pscale, Rat.mul_zero]
  | t :: p => by
      have ih := eval_pscale b c p
      simp only [pscale, List.map_cons, evalPoly_cons] at ih ⊢
      rw [ih]; grind

theorem eval_map_mul (b : Bits) (a : Rat × Mono) : ∀ q : Poly,
    evalPoly b (q.map (fun t => (a.1 * t.1, a.2 ++ t.2))) = a.1 * evalMono b a.2 * evalPoly b q
  | [] => by simp [Rat.mul_zero]
  | t :: q => by
      have ih := eval_map_mul b a q
      simp only [List.map_cons, evalPoly_cons, evalMono_append] at ih ⊢
      rw [ih]; grind

@[simp] theorem eval_pmul (b : Bits) : ∀ p q : Poly, evalPoly b (pmul p q) = evalPoly b p * evalPoly b q
  | [], q => by simp [pmul, Rat.zero_mul]
  | a :: p, q => by
      have ih := eval_pmul b p q
      simp only [pmul, List.flatMap_cons, evalPoly_append, evalPoly_cons] at ih ⊢
      rw [ih, eval_map_mul]; grind

@[simp] theorem eval_psum (b : Bits) : ∀ ps : List Poly, evalPoly b (psum ps) = (ps.map (evalPoly b)).sum
  | [] => by simp [psum]
  | p :: ps => by
      have ih := eval_psum b ps
      simp only [psum, List.flatten_cons, evalPoly_append, List.map_cons, List.sum_cons] at ih ⊢
      rw [ih]

/-! ### the canonical form denotes the same operator -/

theorem zval_sq (b : Bits) (q : Nat) : zval b q * zval b q = 1 := by
  unfold zval; split <;> grind

theorem evalMono_perm (b : Bits) {l₁ l₂ : Mono} (h : l₁.Perm l₂) : evalMono b l₁ = evalMono b l₂ := by
  induction h with
  | nil => rfl
  | cons x _ ih => simp [ih]
  | swap x y l => simp only [evalMono_cons]; grind
  | trans _ _ ih1 ih2 => rw [ih1, ih2]

theorem evalMono_cancelPairs (b : Bits) : ∀ m : Mono, evalMono b (cancelPairs m) = evalMono b m
  | [] => rfl
  | [_] => rfl
  | a :: c :: t => by
      unfold cancelPairs
      split
      · rename_i h
        subst h
        rw [evalMono_cancelPairs b t]
        simp only [evalMono_cons]
        have := zval_sq b a
        grind
      · simp only [evalMono_cons]
        rw [evalMono_cancelPairs b (c :: t)]
        simp only [evalMono_cons]

theorem evalMono_normMono (b : Bits) (m : Mono) : evalMono b (normMono m) = evalMono b m := by
  unfold normMono
  rw [evalMono_cancelPairs]
  exact evalMono_perm b (List.mergeSort_perm _ _)

theorem eval_addTerm (b : Bits) : ∀ (p : Poly) (t : Rat × Mono), evalPoly b (addTerm p t) = evalPoly b p + t.1 * evalMono b t.2
  | [], t => by simp [addTerm, Rat.add_zero, Rat.zero_add]
  | (c', m') :: rest, t => by
      unfold addTerm
      split
      · rename_i h
        simp only [evalPoly_cons, h]
        grind
      · simp only [evalPoly_cons, eval_addTerm b rest t]
        grind

theorem eval_foldl_addTerm (b : Bits) : ∀ (p acc : Poly),
    evalPoly b (p.foldl (fun acc t => addTerm acc (t.1, normMono t.2)) acc) = evalPoly b acc + evalPoly b p
  | [], acc => by simp [Rat.add_zero]
  | t :: p, acc => by
      simp only [List.foldl_cons, eval_foldl_addTerm b p, eval_addTerm, evalMono_normMono, evalPoly_cons]
      grind

theorem eval_filter_nonzero (b : Bits) : ∀ p : Poly, evalPoly b (p.filter (fun t => decide (t.1 ≠ 0))) = evalPoly b p
  | [] => rfl
  | t :: p => by
      simp only [List.filter_cons]
      split
      · simp only [evalPoly_cons]
        rw [eval_filter_nonzero b p]
      · rename_i h
        have h0 : t.1 = 0 := by
          simp only [ne_eq, decide_not, Bool.not_eq_eq_eq_not, Bool.not_true, decide_eq_false_iff_not, Decidable.not_not] at h
          exact h
        simp only [evalPoly_cons]
        rw [eval_filter_nonzero b p, h0]
        grind

/-- **the canonical table denotes the same operator** -/
theorem eval_normalize (b : Bits) (p : Poly) : evalPoly b (normalize p) = evalPoly b p := by
  unfold normalize
  rw [eval_filter_nonzero, eval_foldl_addTerm]
  simp [Rat.zero_add]

/-! ### the encoder's terms -/

theorem eval_zdP (b : Bits) (v : Var) (k : Nat) : evalPoly b (zdP v k) = ((zd v b k : Int) : Rat) := by
  unfold zdP zd
  split
  · simp
  · split
    · simp
    · simp only [eval_pz, zval]
      split <;> simp

theorem eval_valueTermP (b : Bits) (v : Var) (idx : Nat) : evalPoly b (valueTermP v idx) = valueTerm v b idx := by
  unfold valueTermP valueTerm
  split
  · simp
  · simp only [eval_pscale, eval_padd, eval_zdP]
    push_cast
    grind

theorem sum_map_congr {α} (l : List α) (f g : α → Rat) (h : ∀ x ∈ l, f x = g x) : (l.map f).sum = (l.map g).sum := by
  rw [List.map_congr_left h]

theorem eval_viabilityP (b : Bits) (v : Var) : evalPoly b (viabilityP v) = viability v b := by
  unfold viabilityP viability
  split
  · simp [Rat.zero_mul]
  · simp only [eval_psum, List.map_append, List.map_map, List.sum_append, List.map_cons, List.map_nil, List.sum_cons,
      List.sum_nil, eval_pconst]
    have : ((List.range (v.nq + 1)).map (evalPoly b ∘ fun k =>
        pscale (1 / 2) (padd (pconst 1) (pscale (-1) (pmul (zdP v k) (zdP v (k + 1))))))).sum =
        ((List.range (v.nq + 1)).map (fun k => ((1 - zd v b k * zd v b (k + 1) : Int) : Rat) / 2)).sum := by
      apply sum_map_congr
      intro k _
      simp only [Function.comp, eval_pscale, eval_padd, eval_pconst, eval_pmul, eval_zdP]
      push_cast
      grind
    rw [this]
    grind

theorem eval_pairTermP (b : Bits) (t : PairTerm) : evalPoly b (pairTermP t) = pairTermValue t b := by
  unfold pairTermP pairTermValue
  simp only [eval_psum, List.map_map]
  apply sum_map_congr
  intro p _
  obtain ⟨s1, s2⟩ := p
  simp [eval_valueTermP]

theorem eval_makespanTermP (b : Bits) (ovs : List (List OpVar)) (limit : Nat) :
    evalPoly b (makespanTermP ovs limit) = makespanTerm ovs limit b := by
  unfold makespanTermP makespanTerm
  simp only [eval_psum, List.map_map]
  apply sum_map_congr
  intro row _
  simp only [Function.comp]
  cases row.getLast? with
  | none => simp
  | some x =>
    simp only [eval_psum, List.map_map]
    apply sum_map_congr
    intro s _
    simp [eval_valueTermP]

theorem eval_earlyStartTermP (b : Bits) (ovs : List (List OpVar)) :
    evalPoly b (earlyStartTermP ovs) = earlyStartTerm ovs b := by
  unfold earlyStartTermP earlyStartTerm
  simp only [eval_psum, List.map_map]
  apply sum_map_congr
  intro x _
  simp only [Function.comp, eval_psum, List.map_map]
  apply sum_map_congr
  intro i _
  simp only [Function.comp]
  split
  · simp
  · simp [eval_valueTermP]

/-- the operator's value on a basis state is the eigenvalue function of `Model/Encoder.lean` -/
theorem eval_energyPolyOf (pen : Penalties) (inst : EInst) (vars : List (List Var)) (limit : Nat) (b : Bits) :
    evalPoly b (energyPolyOf pen inst vars limit) = energyOf pen inst vars limit b := by
  unfold energyPolyOf energyOf
  simp only [eval_padd, eval_pscale, eval_psum, List.map_map, eval_makespanTermP, eval_earlyStartTermP]
  have h1 : ∀ l : List PairTerm, (l.map (evalPoly b ∘ pairTermP)).sum = (l.map (fun t => pairTermValue t b)).sum := by
    intro l
    apply sum_map_congr
    intro t _
    simp [eval_pairTermP]
  rw [h1, h1]
  have h2 : ∀ (l : List OpVar) (all : List PairTerm),
      (l.map (evalPoly b ∘ fun x => pscale ((maxCount all x + 1 : Nat) : Rat) (viabilityP x.var))).sum =
      (l.map (fun x => ((maxCount all x + 1 : Nat) : Rat) * viability x.var b)).sum := by
    intro l all
    apply sum_map_congr
    intro x _
    simp [eval_viabilityP]
  rw [h2]
  grind

end QVerif.Encoder
