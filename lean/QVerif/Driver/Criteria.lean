import QVerif.Driver.Util
import QVerif.Model.Criteria
open Lean QVerif.Driver QVerif.Criteria

namespace QVerif.Driver.Criteria

def parseRatJ (j : Json) : Except String Rat := do parseRat (← (fromJson? j : Except String String))

def parseEval (j : Json) : Except String Eval := do
  let vs ← (← getArr j "values").toList.mapM parseRatJ
  pure { values := vs, best := ← getRat j "best" }

def runSegs {σ} (check : σ → Eval → σ × Bool) (init : σ) (segs : List (List Eval)) : List (List Bool) :=
  segs.map (fun seg => runCrit check init seg)

def handle : Handler := fun op j =>
  match op with
  | "crit.run" => do
    let kind ← getStr j "kind"
    let allowed ← getNat j "allowed"
    let thr ← getRat j "thr"
    let segs ← (← getArr j "segments").toList.mapM (fun s => do
      (← (fromJson? s : Except String (Array Json))).toList.mapM parseEval)
    -- `reset_state` between segments re-establishes the initial state (Props/C13: *_reset_forgets)
    let ans ← match kind with
      | "best" => pure (runSegs (bestChangeCheck allowed thr) {} segs)
      | "bestrel" => pure (runSegs (bestRelChangeCheck allowed thr) {} segs)
      | "thr" => pure (segs.map (fun seg => seg.map (thresholdCheck thr)))
      | "pop" => pure (runSegs (popChangeCheck allowed thr) (popInit allowed) segs)
      | "poprel" => pure (runSegs (popRelChangeCheck allowed thr) (popInit allowed) segs)
      | _ => throw s!"bad kind {kind}"
    pure (Json.mkObj [("answers", toJson ans)])
  | "spsa.run" => do
    let allowed ← getNat j "allowed"
    let thr ← getRat j "thr"
    let maxfev ← match (← getObj j "maxfev") with
      | .null => pure none
      | v => do pure (some (← (fromJson? v : Except String Nat)))
    let calls ← (← getArr j "calls").toList.mapM (fun c => do
      pure ({ nfev := ← getNat c "nfev", value := ← getRat c "value", accepted := ← getBool c "accepted" } : SpsaCall))
    pure (Json.mkObj [("answers", toJson (runSpsa allowed thr maxfev {} calls))])
  | _ => throw s!"unknown op {op}"

end QVerif.Driver.Criteria

def main : IO Unit := QVerif.Driver.run QVerif.Driver.Criteria.handle
