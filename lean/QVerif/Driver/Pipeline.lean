import QVerif.Driver.Util
import QVerif.Model.Pipeline
open Lean QVerif.Driver QVerif.Pipeline

/-! Driver of the evaluation-pipeline model (C03). Pauli strings travel as arrays of one-letter strings in qubit-index
order; coefficients as rationals "p/q". -/

namespace QVerif.Driver.Pipeline

def parsePauli (s : String) : Except String Pauli :=
  match s with
  | "I" => pure .I | "X" => pure .X | "Y" => pure .Y | "Z" => pure .Z
  | _ => throw s!"bad pauli {s}"

def pauliStr : Pauli → String
  | .I => "I" | .X => "X" | .Y => "Y" | .Z => "Z"

def parseOp (j : Json) : Except String PauliOp := do
  let a ← (fromJson? j : Except String (Array Json))
  a.toList.mapM (fun t => do
    let c ← parseRat (← (fromJson? (t.getArrVal? 0 |>.toOption.getD .null) : Except String String))
    let ps ← (fromJson? (t.getArrVal? 1 |>.toOption.getD .null) : Except String (Array String))
    pure (c, ← ps.toList.mapM parsePauli))

def opJson (o : PauliOp) : Json :=
  Json.arr (o.map (fun t => Json.arr #[ratJson t.1, toJson (t.2.map pauliStr)])).toArray

/-- symbolic circuits for the evaluator glue -/
inductive Sym where
  | atom (k : Nat)
  | init
  | compose (a b : Sym)
  | measured (a : Sym)
  deriving Repr

partial def symStr : Sym → String
  | .atom k => s!"c{k}"
  | .init => "init"
  | .compose a b => s!"compose({symStr a},{symStr b})"
  | .measured a => s!"measure_all({symStr a})"

def handle : Handler := fun op j =>
  match op with
  | "pipeline.relayout" => do
    let o ← parseOp (← getObj j "terms")
    let layout ← (fromJson? (← getObj j "layout") : Except String (List Nat))
    let m ← getNat j "m"
    pure (Json.mkObj [("terms", opJson (opApplyLayout o layout m))])
  | "pipeline.value" => do
    let o ← parseOp (← getObj j "terms")
    let bits ← (fromJson? (← getObj j "bits") : Except String (List Bool))
    pure (Json.mkObj [("value", ratJson (opVal o bits))])
  | "pipeline.place" => do
    let bits ← (fromJson? (← getObj j "bits") : Except String (List Bool))
    let final ← (fromJson? (← getObj j "final") : Except String (List Nat))
    let m ← getNat j "m"
    pure (Json.mkObj [("bits", toJson (place bits final m))])
  | "pipeline.evaluate" => do
    -- which pubs reach the primitive, through a stack given as a list of "T" | "M" | ["B", before, after]
    let nc ← getNat j "n_circuits"
    let np ← getNat j "n_params"
    let hasInit ← getBool j "init"
    let kind ← getStr j "kind"
    let circuits := (List.range nc).map Sym.atom
    let params := List.range np
    if kind == "sampler" then
      let e : SamplerEval Sym Nat := { compose := Sym.compose, measureAll := Sym.measured, init := if hasInit then some .init else none,
                                       shots := 1, f := fun _ => 0, alpha := 1 }
      let pubs := (circuits.map e.prep).zip params
      pure (Json.mkObj [("pubs", Json.arr (pubs.map (fun p => Json.arr #[Json.str (symStr p.1), toJson p.2])).toArray)])
    else
      let e : EstimatorEval Sym Unit := { compose := Sym.compose, init := if hasInit then some .init else none, op := () }
      let pubs := (circuits.map e.prep).zip params
      pure (Json.mkObj [("pubs", Json.arr (pubs.map (fun p => Json.arr #[Json.str (symStr p.1), toJson p.2])).toArray)])
  | "pipeline.batch_shots" => do
    -- callers [{n, shots}] sharing one batch: the shot count with which each pub of each caller reaches the primitive
    let cs ← (← getArr j "callers").toList.mapM (fun c => do pure ((← getNat c "n"), (← getNat c "shots")))
    let pubsOf (i : Nat) (c : Nat × Nat) : List (SPub Nat Nat) := (List.range c.1).map (fun k => (k, i, c.2))
    let all := cs.zipIdx.map (fun (c, i) => pubsOf i c)
    let P : Prim (SPub Nat Nat) Nat := fun pubs => pubs.map (fun p => p.2.2)
    let out := all.zipIdx.map (fun (mine, i) =>
      let s : Stack (SPub Nat Nat) := .batching (all.take i).flatten (all.drop (i + 1)).flatten .plain
      s.wrap P mine)
    pure (Json.mkObj [("shots", toJson out)])
  | "pipeline.slice" => do
    -- a batching wrapper: the caller's slice of the batch result
    let before ← (fromJson? (← getObj j "before") : Except String (List Nat))
    let mine ← (fromJson? (← getObj j "mine") : Except String (List Nat))
    let after ← (fromJson? (← getObj j "after") : Except String (List Nat))
    let P : Prim Nat Nat := fun pubs => pubs.map (fun x => x)
    let s : Stack Nat := .batching before after .plain
    pure (Json.mkObj [("slice", toJson (s.wrap P mine))])
  | _ => throw s!"unknown op {op}"

end QVerif.Driver.Pipeline

def main : IO Unit := QVerif.Driver.run QVerif.Driver.Pipeline.handle
