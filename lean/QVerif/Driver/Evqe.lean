import QVerif.Driver.Util
import QVerif.Driver.GenomeJson
import QVerif.Model.Evqe
open Lean QVerif.Driver QVerif.Genome QVerif.Evqe
open QVerif.Driver.Genome (parseIndiv indivJson parseOracle)

namespace QVerif.Driver.Evqe

def optArr (j : Json) : Except String (Option (Array Json)) :=
  match j with
  | .null => pure none
  | _ => do pure (some (← (fromJson? j : Except String (Array Json))))

def parsePop (j : Json) : Except String Pop := do
  let inds ← (← getArr j "inds").toList.mapM parseIndiv
  let reps ← match ← optArr (← getObj j "reps") with
    | none => pure none
    | some a => do pure (some (← a.toList.mapM parseIndiv))
  let members ← match ← optArr (← getObj j "members") with
    | none => pure none
    | some a => do
      pure (some (← a.toList.mapM (fun e => do
        let p ← (fromJson? e : Except String (Array Json))
        pure (← parseIndiv p[0]!, ← (fromJson? p[1]! : Except String (List Nat))))))
  let membership ← match ← optArr (← getObj j "membership") with
    | none => pure none
    | some a => do
      pure (some (← a.toList.mapM (fun e => do
        let p ← (fromJson? e : Except String (Array Json))
        pure (← (fromJson? p[0]! : Except String Nat), ← parseIndiv p[1]!))))
  pure { inds := inds, reps := reps, members := members, membership := membership }

def popJson (p : Pop) : Json :=
  let reps : Json := match p.reps with
    | none => Json.null
    | some r => Json.arr (r.map indivJson).toArray
  let members : Json := match p.members with
    | none => Json.null
    | some m => Json.arr (m.map (fun (r, l) => Json.arr #[indivJson r, toJson l])).toArray
  let membership : Json := match p.membership with
    | none => Json.null
    | some m => Json.arr (m.map (fun (i, r) => Json.arr #[toJson i, indivJson r])).toArray
  Json.mkObj [("inds", Json.arr (p.inds.map indivJson).toArray), ("reps", reps), ("members", members),
    ("membership", membership)]

def eventJson : Event → Json
  | .count n => Json.arr #["count", toJson n]
  | .result _ vs b => Json.arr #["result", Json.arr (vs.map ratJson).toArray, toJson b]

def errStr : OpErr → String
  | .selectionWithoutSpeciation => "selectionWithoutSpeciation"
  | .genome e => "genome:" ++ e.toString
  | .oracleExhausted => "oracleExhausted"

def resJson (r : Except OpErr Pop) (evs : List Event) : Json :=
  let first : String × Json := match r with
    | .ok p => ("ok", popJson p)
    | .error e => ("err", Json.str (errStr e))
  Json.mkObj [first, ("events", Json.arr (evs.map eventJson).toArray)]

def parseStep (j : Json) : Except String (Option MutStep) :=
  match j with
  | .null => pure none
  | _ =>
    match j.getObjVal? "opt" with
    | .ok v => do
      let steps ← (← (fromJson? v : Except String (Array Json))).toList.mapM (fun s => do
        let a ← (fromJson? s : Except String (Array Json))
        pure (← (fromJson? a[0]! : Except String Int), ← (fromJson? a[1]! : Except String (List Int)), ← (fromJson? a[2]! : Except String Nat)))
      pure (some (.optimizeLayers steps))
    | .error _ =>
      match j.getObjVal? "add" with
      | .ok v => do pure (some (.addLayer (← parseOracle v)))
      | .error _ => do pure (some (.removeLayers (← getNat j "remove")))

def handle : Handler := fun op j =>
  match op with
  | "evqe.speciate" => do
    let pop ← parsePop (← getObj j "pop")
    let thr ← getInt j "thr"
    let ch ← (fromJson? (← getObj j "choices") : Except String (List Nat))
    match speciate thr ch pop with
    | .error e => pure (Json.mkObj [("err", errStr e)])
    | .ok (p, rest) => pure (Json.mkObj [("ok", popJson p), ("unused", toJson rest.length)])
  | "evqe.select" => do
    let pop ← parsePop (← getObj j "pop")
    let alpha ← getRat j "alpha"
    let beta ← getRat j "beta"
    let evals ← (← getArr j "evals").toList.mapM (fun e => do parseRat (← (fromJson? e : Except String String)))
    let m ← getObj j "mode"
    let mode ← match m.getObjVal? "roulette" with
      | .ok v => do pure (SelMode.roulette (← (fromJson? v : Except String (List Nat))))
      | .error _ => do pure (SelMode.tournament (← (fromJson? (← getObj m "tournament") : Except String (List (List Nat)))))
    let (r, evs) := select alpha beta mode evals pop
    pure (resJson r evs)
  | "evqe.mutate" => do
    let pop ← parsePop (← getObj j "pop")
    let plan ← (← getArr j "plan").toList.mapM parseStep
    let (r, evs) := mutate plan pop
    pure (resJson r evs)
  | _ => throw s!"unknown op {op}"

end QVerif.Driver.Evqe

def main : IO Unit := QVerif.Driver.run QVerif.Driver.Evqe.handle
