import QVerif.Driver.Util
import QVerif.Model.RandomInstance
open Lean QVerif.Driver QVerif.RandInst

/-! Driver of the random job-shop instance model (C17): the draws recorded from the real generator are replayed. -/

namespace QVerif.Driver.RandInst

def optNat (j : Json) : Except String (Option Nat) :=
  match j with
  | .null => pure none
  | _ => do pure (some (← (fromJson? j : Except String Nat)))

def parseVDRat (j : Json) : Except String (VD Rat) :=
  match j.getObjVal? "val" with
  | .ok v => do pure (.val (← parseRat (← (fromJson? v : Except String String))))
  | .error _ => do
    let a ← getArr j "dist"
    let kw ← a.toList.mapM (fun e => do
      let p ← (fromJson? e : Except String (Array String))
      pure ((← parseRat p[0]!), (← parseRat p[1]!)))
    pure (.dist (kw.map (·.1)) (kw.map (·.2)))

def parseVDInt (j : Json) : Except String (VD Int) :=
  match j.getObjVal? "val" with
  | .ok v => do pure (.val (← (fromJson? v : Except String Int)))
  | .error _ => do
    let a ← getArr j "dist"
    let kw ← a.toList.mapM (fun e => do
      let p ← (fromJson? e : Except String (Array Json))
      pure ((← (fromJson? p[0]! : Except String Int)), (← parseRat (← (fromJson? p[1]! : Except String String)))))
    pure (.dist (kw.map (·.1)) (kw.map (·.2)))

def parseDraws (j : Json) : Except String JobDraws := do
  pure { amount := ← optNat (← getObj j "amount"),
         sample := ← (fromJson? (← getObj j "sample") : Except String (List Nat)),
         shuffled := ← (fromJson? (← getObj j "shuffled") : Except String (List Nat)),
         durs := ← (← getArr j "durs").toList.mapM optNat }

def errStr : RErr → String
  | .badDistribution => "badDistribution" | .sampleError => "sampleError" | .emptyJob => "emptyJob"
  | .invalid e => "invalid:" ++ e.toString | .oracleMismatch => "oracleMismatch"

def handle : Handler := fun op j =>
  match op with
  | "randinst.build" => do
    let name ← getStr j "name"
    let nm ← getNat j "n_machines"
    let amount ← parseVDRat (← getObj j "amount")
    let dur ← parseVDInt (← getObj j "dur")
    let draws ← (← getArr j "draws").toList.mapM parseDraws
    match randomInstance name nm amount dur draws with
    | .error e => pure (Json.mkObj [("err", errStr e)])
    | .ok inst => pure (Json.mkObj [("ok", Json.mkObj [("name", inst.name), ("machines", toJson inst.machines),
        ("jobs", Json.arr (inst.jobs.map (fun jb => Json.arr #[Json.str jb.name,
          Json.arr (jb.ops.map (fun o => Json.arr #[Json.str o.name, Json.str o.jobName, Json.str o.machine, toJson o.dur])).toArray])).toArray)])])
  | _ => throw s!"unknown op {op}"

end QVerif.Driver.RandInst

def main : IO Unit := QVerif.Driver.run QVerif.Driver.RandInst.handle
