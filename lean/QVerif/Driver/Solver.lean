import QVerif.Driver.Util
import QVerif.Model.Solver
open Lean QVerif.Driver QVerif.Solver

namespace QVerif.Driver.Solver

def optNatJ (j : Json) : Except String (Option Nat) :=
  match j with
  | .null => pure none
  | _ => do pure (some (← (fromJson? j : Except String Nat)))

def optIntJ (j : Json) : Except String (Option Int) :=
  match j with
  | .null => pure none
  | _ => do pure (some (← (fromJson? j : Except String Int)))

def parseEv (j : Json) : Except String Ev := do
  let a ← (fromJson? j : Except String (Array Json))
  let k ← (fromJson? a[0]! : Except String String)
  match k with
  | "count" => pure (.count (← (fromJson? a[1]! : Except String Nat)))
  | "result" => pure (.result (← (fromJson? a[1]! : Except String Nat)) (← parseRat (← (fromJson? a[2]! : Except String String)))
      (← (fromJson? a[3]! : Except String Bool)))
  | _ => throw s!"bad event {k}"

def parseStep (j : Json) : Except String Step := do
  pure { est := ← optNatJ (← getObj j "est"), events := ← (← getArr j "events").toList.mapM parseEv }

def handle : Handler := fun op j =>
  match op with
  | "solver.run" => do
    let c ← getObj j "cfg"
    let cfg : Cfg := { maxGen := ← optNatJ (← getObj c "max_gen"), maxEvals := ← optIntJ (← getObj c "max_evals"),
                       hasCriterion := ← getBool c "has_crit" }
    let script ← (← getArr j "script").toList.mapM parseStep
    let faultAt ← optNatJ ((j.getObjVal? "fault_at").toOption.getD Json.null)
    let (oF, started) := solveF cfg script faultAt
    let totals := started.map (fun s => toJson (total s))
    let base := [("started", toJson started.length), ("totals_at_start", Json.arr totals.toArray),
                 ("gens_at_start", toJson (started.map (·.nGen)))]
    match oF with
    | .operatorRaised => pure (Json.mkObj ([("outcome", Json.str "fault")] ++ base))
    | .normal o =>
    match o with
    | .ok r => pure (Json.mkObj ([("outcome", Json.str "ok"), ("eigenvalue", ratJson r.eigenvalue), ("best", toJson r.bestIndividual),
        ("ledger", toJson r.circuitEvaluations), ("generations", toJson r.generations),
        ("history", Json.arr (r.history.map (fun (b, v) => Json.arr #[toJson b, ratJson v])).toArray),
        ("measured", toJson r.measured)] ++ base))
    | .raisedNothingEvaluated => pure (Json.mkObj ([("outcome", Json.str "raised")] ++ base))
    | .scriptExhausted => pure (Json.mkObj ([("outcome", Json.str "exhausted")] ++ base))
  | _ => throw s!"unknown op {op}"

end QVerif.Driver.Solver

def main : IO Unit := QVerif.Driver.run QVerif.Driver.Solver.handle
