import QVerif.Driver.Util
import QVerif.Model.Cvar
open Lean QVerif.Driver QVerif.Cvar

namespace QVerif.Driver.Cvar

def parsePair (j : Json) : Except String (Rat × Rat) := do
  let a ← (fromJson? j : Except String (Array String))
  if a.size ≠ 2 then throw "pair expected"
  pure (← parseRat a[0]!, ← parseRat a[1]!)

def resJson (r : Except Err Rat) : Json :=
  match r with
  | .ok v => Json.mkObj [("ok", ratJson v)]
  | .error _ => Json.mkObj [("err", "alphaOutOfRange")]

def handle : Handler := fun op j =>
  match op with
  | "cvar.eval" => do
    let dist ← (← getArr j "dist").toList.mapM parsePair
    let alpha ← getRat j "alpha"
    let exact : Json := if 0 < alpha then ratJson (cvarExact dist alpha) else Json.null
    pure (Json.mkObj [("op", resJson (expectationWithOperator dist alpha)),
                      ("bits", resJson (expectationWithBitstrings dist alpha)),
                      ("exact", exact)])
  | _ => throw s!"unknown op {op}"

end QVerif.Driver.Cvar

def main : IO Unit := QVerif.Driver.run QVerif.Driver.Cvar.handle
