import Lean.Data.Json
/-! JSON-lines plumbing shared by the model drivers (not part of the model, not part of any proof). -/
open Lean

namespace QVerif.Driver

abbrev Handler := String → Json → Except String Json

def getStr (j : Json) (k : String) : Except String String := j.getObjValAs? String k
def getInt (j : Json) (k : String) : Except String Int := j.getObjValAs? Int k
def getNat (j : Json) (k : String) : Except String Nat := j.getObjValAs? Nat k
def getBool (j : Json) (k : String) : Except String Bool := j.getObjValAs? Bool k
def getArr (j : Json) (k : String) : Except String (Array Json) := j.getObjValAs? (Array Json) k
def getObj (j : Json) (k : String) : Except String Json := j.getObjVal? k

def optInt (j : Json) : Except String (Option Int) :=
  match j with
  | .null => pure none
  | _ => do let v ← (fromJson? j : Except String Int); pure (some v)

/-- rationals travel as strings "p/q" or "p" -/
def parseRat (s : String) : Except String Rat :=
  match s.splitOn "/" with
  | [p] => match p.toInt? with
    | some n => pure (n : Rat)
    | none => throw s!"bad rational {s}"
  | [p, q] => match p.toInt?, q.toNat? with
    | some n, some d => if d = 0 then throw s!"zero denominator {s}" else pure ((n : Rat) / (d : Rat))
    | _, _ => throw s!"bad rational {s}"
  | _ => throw s!"bad rational {s}"

def getRat (j : Json) (k : String) : Except String Rat := do parseRat (← getStr j k)

def ratToString (r : Rat) : String := if r.den = 1 then toString r.num else s!"{r.num}/{r.den}"

def ratJson (r : Rat) : Json := Json.str (ratToString r)

partial def loop (handle : Handler) (hin hout : IO.FS.Stream) : IO Unit := do
  let line ← hin.getLine
  if line.isEmpty then return ()
  let out : Json :=
    match Json.parse line with
    | .error e => Json.mkObj [("driver_error", Json.str s!"parse: {e}")]
    | .ok j =>
      match getStr j "op" with
      | .error e => Json.mkObj [("driver_error", Json.str e)]
      | .ok op =>
        match handle op j with
        | .ok r => r
        | .error e => Json.mkObj [("driver_error", Json.str e)]
  hout.putStrLn out.compress
  hout.flush
  loop handle hin hout

def run (handle : Handler) : IO Unit := do
  let hout ← IO.getStdout
  hout.putStrLn "READY"
  hout.flush
  loop handle (← IO.getStdin) hout

end QVerif.Driver
