import QVerif.Driver.Util
import QVerif.Model.Runner
open Lean QVerif.Driver Runner

namespace QVerif.Driver.Runner

def locName : Loc → String
  | .idle => "idle" | .a0 => "a0" | .a1 => "a1" | .a2 => "a2" | .a3 => "a3" | .a4 => "a4" | .a7 => "a7" | .a8 => "a8"
  | .a9 => "a9" | .b0 => "b0" | .b1 => "b1" | .b2 => "b2" | .b3 => "b3" | .b4 => "b4" | .c0 => "c0" | .c1 => "c1"
  | .c2 => "c2" | .d0 => "d0" | .d1 => "d1" | .d2 => "d2" | .g0 => "g0" | .g1 => "g1" | .g2 => "g2" | .g3 => "g3"
  | .g4 => "g4" | .g5 => "g5" | .g6 => "g6" | .g7 => "g7" | .r => "r"

def optNat (o : Option Nat) : Json := match o with | none => Json.null | some n => toJson n

def outcomeJson : Outcome → Json
  | .ok rs => Json.mkObj [("ok", toJson rs)]
  | .exc e => Json.mkObj [("exc", toJson e)]

def tsJson (x : TS) : Json :=
  Json.mkObj [("loc", locName x.loc), ("exec", x.exec), ("idx", toJson x.idx), ("pubs", toJson x.pubs),
    ("outs", Json.arr (x.outs.map (fun (o, i) => Json.mkObj [("out", outcomeJson o), ("idx", toJson i)])).toArray)]

def stJson (s : St) : Json :=
  Json.mkObj [("E", optNat s.E), ("V", optNat s.V), ("icw", toJson s.icw), ("ecw", toJson s.ecw),
    ("tc", toJson s.tc), ("ec", toJson s.ec), ("blen", toJson s.blen), ("batch", toJson s.batch),
    ("res", match s.result with | none => Json.null | some rs => toJson rs), ("exn", optNat s.exn),
    ("th", Json.arr (s.th.map tsJson).toArray)]

def parseAct (j : Json) : Except String Act := do
  let k ← getStr j "k"
  let t ← getNat j "t"
  match k with
  | "step" => pure (.step t)
  | "timeout" => pure (.timeout t)
  | "fret" => pure (.fret t (← getBool j "fail"))
  | _ => throw s!"bad action {k}"

/-- run a whole trace; stops at the first disabled action -/
def runTrace (s : St) (acts : List Act) : List Json × St × Option Nat :=
  let rec go (s : St) (acts : List Act) (i : Nat) (acc : List Json) : List Json × St × Option Nat :=
    match acts with
    | [] => (acc.reverse, s, none)
    | a :: rest =>
      match step s a with
      | none => (acc.reverse, s, some i)
      | some s' => go s' rest (i + 1) (stJson s' :: acc)
  go s acts 0 []

def handle : Handler := fun op j =>
  match op with
  | "runner.trace" => do
    let progs ← (fromJson? (← getObj j "progs") : Except String (List (List (List Nat))))
    let acts ← (← getArr j "acts").toList.mapM parseAct
    let s0 : St := { th := progs.map (fun c => { todo := c }) }
    let (states, sEnd, dis) := runTrace s0 acts
    pure (Json.mkObj [("init", stJson s0), ("states", Json.arr states.toArray),
      ("disabled_at", match dis with | none => Json.null | some i => toJson i),
      ("flog", Json.arr (sEnd.flog.map (fun (b, o) => Json.mkObj [("batch", toJson b), ("out", outcomeJson o)])).toArray)])
  | _ => throw s!"unknown op {op}"

end QVerif.Driver.Runner

def main : IO Unit := QVerif.Driver.run QVerif.Driver.Runner.handle
