import QVerif.Driver.Util
import QVerif.Model.Genome
open Lean QVerif.Driver QVerif.Genome

namespace QVerif.Driver.Genome

def parseGate (j : Json) : Except String Gate := do
  let a ← (fromJson? j : Except String (Array Json))
  let k ← (fromJson? (a[0]!) : Except String String)
  let q ← (fromJson? (a[1]!) : Except String Nat)
  match k with
  | "id" => pure (.id q)
  | "rot" => pure (.rot q)
  | "ctrl" => pure (.ctrl q (← (fromJson? (a[2]!) : Except String Nat)))
  | "crot" => pure (.crot q (← (fromJson? (a[2]!) : Except String Nat)))
  | _ => throw s!"bad gate {k}"

def gateJson : Gate → Json
  | .id q => Json.arr #["id", toJson q]
  | .rot q => Json.arr #["rot", toJson q]
  | .ctrl q c => Json.arr #["ctrl", toJson q, toJson c]
  | .crot q c => Json.arr #["crot", toJson q, toJson c]

def parseLayer (j : Json) : Except String Layer := do
  pure { nQubits := ← getNat j "n", gates := ← (← getArr j "gates").toList.mapM parseGate }

def layerJson (l : Layer) : Json := Json.mkObj [("n", toJson l.nQubits), ("gates", Json.arr (l.gates.map gateJson).toArray)]

def parseIndiv (j : Json) : Except String Indiv := do
  pure { nQubits := ← getNat j "n", layers := ← (← getArr j "layers").toList.mapM parseLayer,
         values := ← (fromJson? (← getObj j "values") : Except String (List Int)) }

def indivJson (x : Indiv) : Json :=
  Json.mkObj [("n", toJson x.nQubits), ("layers", Json.arr (x.layers.map layerJson).toArray), ("values", toJson x.values)]

def resIndiv (r : Except Err Indiv) : Json :=
  match r with
  | .ok x => Json.mkObj [("ok", indivJson x)]
  | .error e => Json.mkObj [("err", e.toString)]

def parseOracle (j : Json) : Except String Oracle := do
  let coins ← (fromJson? (← getObj j "coins") : Except String (List Bool))
  let pairs ← (← getArr j "pairs").toList.mapM (fun p => do
    let a ← (fromJson? p : Except String (Array Nat))
    pure (a[0]!, a[1]!))
  pure { coins := coins, pairs := pairs }

def optLayer (j : Json) : Except String (Option Layer) :=
  match j with
  | .null => pure none
  | _ => do pure (some (← parseLayer j))


end QVerif.Driver.Genome
