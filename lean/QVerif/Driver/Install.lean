import QVerif.Driver.Util
import QVerif.Model.Install
open Lean QVerif.Driver QVerif.Install

/-! Driver of the wrapper-installation model (C07). -/

namespace QVerif.Driver.Install

def wJson : W → Json
  | .transpiling => Json.str "T"
  | .batching k => Json.arr #[Json.str "B", toJson k]
  | .mutex k => Json.arr #[Json.str "M", toJson k]

def handle : Handler := fun op j =>
  match op with
  | "install.views" => do
    let cfgs ← (← getArr j "cfgs").toList.mapM (fun c => do
      let ex ← getStr c "executor"
      pure ({ mutuallyExclusive := ← getBool c "mutually_exclusive",
              executor := if ex == "threadPool" then .threadPool else if ex == "daskClient" then .daskClient else .none } : Cfg))
    pure (Json.mkObj [("views", Json.arr ((views cfgs).map (fun v => Json.arr (v.map wJson).toArray)).toArray)])
  | _ => throw s!"unknown op {op}"

end QVerif.Driver.Install

def main : IO Unit := QVerif.Driver.run QVerif.Driver.Install.handle
