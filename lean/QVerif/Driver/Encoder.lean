import QVerif.Driver.Util
import QVerif.Model.Encoder
import QVerif.Model.EncoderPoly
open Lean QVerif.Driver QVerif.Encoder

namespace QVerif.Driver.Encoder

def parseInst (j : Json) : Except String EInst := do
  (← (fromJson? j : Except String (Array Json))).toList.mapM (fun job => do
    (← (fromJson? job : Except String (Array Json))).toList.mapM (fun o => do
      let a ← (fromJson? o : Except String (Array Nat))
      pure ({ machine := a[0]!, dur := a[1]! } : EOp)))

def parseBits (s : String) : Bits := s.toList.map (· == '1')

def varJson (v : Var) : Json := Json.arr #[toJson v.qstart, toJson v.lo, toJson v.nvals]

def errStr : Err → String
  | .limitTooShort => "limitTooShort" | .noQubits => "noQubits" | .badBitstringLength => "badBitstringLength"

def handle : Handler := fun op j =>
  match op with
  | "enc.prepare" => do
    let inst ← parseInst (← getObj j "inst")
    let limit ← getNat j "limit"
    match prepare inst limit with
    | .error e => pure (Json.mkObj [("err", errStr e)])
    | .ok vars => pure (Json.mkObj [("n_qubits", toJson (nQubits vars)),
        ("vars", Json.arr (vars.map (fun r => Json.arr (r.map varJson).toArray)).toArray)])
  | "enc.energy" => do
    let inst ← parseInst (← getObj j "inst")
    let limit ← getNat j "limit"
    let p ← getObj j "pen"
    let pen : Penalties := { enc := ← getRat p "enc", ovl := ← getRat p "ovl", prec := ← getRat p "prec",
                             opt := ← getRat p "opt", share := ← getRat p "share" }
    -- bitstrings arrive already reversed: character q is qubit q
    let bss ← (fromJson? (← getObj j "bits") : Except String (List String))
    match prepare inst limit with
    | .error e => pure (Json.mkObj [("err", errStr e)])
    | .ok vars =>
      if nQubits vars = 0 then pure (Json.mkObj [("err", "noQubits")])
      else
        let es := bss.map (fun b => ratJson (energyOf pen inst vars limit (parseBits b)))
        let ds := bss.map (fun b => toJson (translate vars (parseBits b)))
        pure (Json.mkObj [("energies", Json.arr es.toArray), ("decoded", Json.arr ds.toArray)])
  | "enc.table" => do
    -- the Hamiltonian as an operator: canonical table  Z positions -> coefficient  (Model/EncoderPoly.lean)
    let inst ← parseInst (← getObj j "inst")
    let limit ← getNat j "limit"
    let p ← getObj j "pen"
    let pen : Penalties := { enc := ← getRat p "enc", ovl := ← getRat p "ovl", prec := ← getRat p "prec",
                             opt := ← getRat p "opt", share := ← getRat p "share" }
    match energyPoly pen inst limit with
    | .error e => pure (Json.mkObj [("err", errStr e)])
    | .ok H =>
      let t := normalize H
      pure (Json.mkObj [("raw_terms", toJson H.length),
        ("table", Json.arr (t.map (fun e => Json.arr #[ratJson e.1, toJson e.2])).toArray)])
  | "enc.decode" => do
    let inst ← parseInst (← getObj j "inst")
    let limit ← getNat j "limit"
    let bss ← (fromJson? (← getObj j "bits") : Except String (List String))
    match prepare inst limit with
    | .error e => pure (Json.mkObj [("err", errStr e)])
    | .ok vars => pure (Json.mkObj [("decoded", Json.arr (bss.map (fun b => toJson (translate vars (parseBits b)))).toArray)])
  | _ => throw s!"unknown op {op}"

end QVerif.Driver.Encoder

def main : IO Unit := QVerif.Driver.run QVerif.Driver.Encoder.handle
