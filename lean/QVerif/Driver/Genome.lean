import QVerif.Driver.GenomeJson
open Lean QVerif.Driver QVerif.Genome

namespace QVerif.Driver.Genome

def kindStr : PKind → String
  | .theta => "theta" | .phi => "phi" | .lam => "lambda"

def slotJson (s : Slot) : Json := Json.arr #[toJson s.layer, toJson s.qubit, kindStr s.kind]

def bindingJson (b : Binding) : Json :=
  Json.arr (b.map (fun (s, v) => Json.arr #[toJson s.layer, toJson s.qubit, kindStr s.kind, toJson v])).toArray

def handle : Handler := fun op j =>
  match op with
  | "genome.layer" => do
    let n ← getNat j "n"
    let gates ← (← getArr j "gates").toList.mapM parseGate
    match mkLayer n gates with
    | .ok l => pure (Json.mkObj [("ok", true), ("nparams", toJson l.nParams), ("ncontrolled", toJson l.nControlled)])
    | .error e => pure (Json.mkObj [("err", e.toString)])
  | "genome.indiv" => do
    let x ← parseIndiv (← getObj j "indiv")
    pure (Json.mkObj [("valid", x.isValid),
      ("layer_values", toJson ((List.range x.layers.length).map (layerValues x)))])
  | "genome.change_params" => do
    let x ← parseIndiv (← getObj j "indiv")
    let vals ← (fromJson? (← getObj j "vals") : Except String (List Int))
    pure (resIndiv (changeParameterValues x vals))
  | "genome.change_layer" => do
    let x ← parseIndiv (← getObj j "indiv")
    let vals ← (fromJson? (← getObj j "vals") : Except String (List Int))
    pure (resIndiv (changeLayerParameterValues x (← getInt j "layer_id") vals))
  | "genome.remove" => do
    let x ← parseIndiv (← getObj j "indiv")
    pure (resIndiv (removeLayers x (← getInt j "k")))
  | "genome.add" => do
    let x ← parseIndiv (← getObj j "indiv")
    let o ← parseOracle (← getObj j "oracle")
    let newVals ← (fromJson? (← getObj j "new_vals") : Except String (List Int))
    pure (resIndiv (addRandomLayers x (← getInt j "n_layers") o (fun _ => newVals)))
  | "genome.random_layer" => do
    let n ← getNat j "n"
    let prev ← optLayer (← getObj j "prev")
    let o ← parseOracle (← getObj j "oracle")
    match randomLayer n prev o with
    | .ok (l, o') => pure (Json.mkObj [("ok", layerJson l), ("unused_coins", toJson o'.coins.length), ("unused_pairs", toJson o'.pairs.length)])
    | .error e => pure (Json.mkObj [("err", e.toString)])
  | "genome.random_individual" => do
    let n ← getNat j "n"
    let k ← getNat j "n_layers"
    let o ← parseOracle (← getObj j "oracle")
    let vals ← (fromJson? (← getObj j "vals") : Except String (List Int))
    pure (resIndiv (randomIndividual n k o (fun _ => vals)))
  | "genome.distance" => do
    let a ← parseIndiv (← getObj j "a")
    let b ← parseIndiv (← getObj j "b")
    pure (Json.mkObj [("distance", toJson (geneticDistance a b))])
  | "genome.views" => do
    let x ← parseIndiv (← getObj j "indiv")
    let sym ← (fromJson? (← getObj j "symbolic") : Except String (List Nat))
    pure (Json.mkObj [("order", Json.arr ((sortSlots (allSlots x)).map slotJson).toArray),
      ("full", bindingJson (bindFull x)), ("partial", bindingJson (bindPartial x sym))])
  | _ => throw s!"unknown op {op}"

end QVerif.Driver.Genome

def main : IO Unit := QVerif.Driver.run QVerif.Driver.Genome.handle
