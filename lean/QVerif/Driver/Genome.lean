import QVerif.Driver.Util
import QVerif.Model.Genome
open Lean QVerif.Driver QVerif.Genome

namespace QVerif.Driver.Genome

def parseGate (j : Json) : Except String Gate := do
  let a ← (fromJson? j : Except String (Array Json))
  let k ← (fromJson? (a[0]!) : Except String String)
  let q ← (fromJson? (a[1]!) : Except String Nat)
  match k with
  | "id" => pure (.id q)
  | "rot" => pure (.rot q)
  | "ctrl" => pure (.ctrl q (← (fromJson? (a[2]!) : Except String Nat)))
  | "crot" => pure (.crot q (← (fromJson? (a[2]!) : Except String Nat)))
  | _ => throw s!"bad gate {k}"

def gateJson : Gate → Json
  | .id q => Json.arr #["id", toJson q]
  | .rot q => Json.arr #["rot", toJson q]
  | .ctrl q c => Json.arr #["ctrl", toJson q, toJson c]
  | .crot q c => Json.arr #["crot", toJson q, toJson c]

def parseLayer (j : Json) : Except String Layer := do
  pure { nQubits := ← getNat j "n", gates := ← (← getArr j "gates").toList.mapM parseGate }

def layerJson (l : Layer) : Json := Json.mkObj [("n", toJson l.nQubits), ("gates", Json.arr (l.gates.map gateJson).toArray)]

def parseIndiv (j : Json) : Except String Indiv := do
  pure { nQubits := ← getNat j "n", layers := ← (← getArr j "layers").toList.mapM parseLayer,
         values := ← (fromJson? (← getObj j "values") : Except String (List Int)) }

def indivJson (x : Indiv) : Json :=
  Json.mkObj [("n", toJson x.nQubits), ("layers", Json.arr (x.layers.map layerJson).toArray), ("values", toJson x.values)]

def resIndiv (r : Except Err Indiv) : Json :=
  match r with
  | .ok x => Json.mkObj [("ok", indivJson x)]
  | .error e => Json.mkObj [("err", e.toString)]

def parseOracle (j : Json) : Except String Oracle := do
  let coins ← (fromJson? (← getObj j "coins") : Except String (List Bool))
  let pairs ← (← getArr j "pairs").toList.mapM (fun p => do
    let a ← (fromJson? p : Except String (Array Nat))
    pure (a[0]!, a[1]!))
  pure { coins := coins, pairs := pairs }

def optLayer (j : Json) : Except String (Option Layer) :=
  match j with
  | .null => pure none
  | _ => do pure (some (← parseLayer j))

def kindStr : PKind → String
  | .theta => "theta" | .phi => "phi" | .lam => "lambda"

def slotJson (s : Slot) : Json := Json.arr #[toJson s.layer, toJson s.qubit, kindStr s.kind]

def bindingJson (b : Binding) : Json :=
  Json.arr (b.map (fun (s, v) => Json.arr #[toJson s.layer, toJson s.qubit, kindStr s.kind, toJson v])).toArray

def handle : Handler := fun op j =>
  match op with
  | "genome.layer" => do
    let n ← getNat j "n"
    let gates ← (← getArr j "gates").toList.mapM parseGate
    match mkLayer n gates with
    | .ok l => pure (Json.mkObj [("ok", true), ("nparams", toJson l.nParams), ("ncontrolled", toJson l.nControlled)])
    | .error e => pure (Json.mkObj [("err", e.toString)])
  | "genome.indiv" => do
    let x ← parseIndiv (← getObj j "indiv")
    pure (Json.mkObj [("valid", x.isValid),
      ("layer_values", toJson ((List.range x.layers.length).map (layerValues x)))])
  | "genome.change_params" => do
    let x ← parseIndiv (← getObj j "indiv")
    let vals ← (fromJson? (← getObj j "vals") : Except String (List Int))
    pure (resIndiv (changeParameterValues x vals))
  | "genome.change_layer" => do
    let x ← parseIndiv (← getObj j "indiv")
    let vals ← (fromJson? (← getObj j "vals") : Except String (List Int))
    pure (resIndiv (changeLayerParameterValues x (← getInt j "layer_id") vals))
  | "genome.remove" => do
    let x ← parseIndiv (← getObj j "indiv")
    pure (resIndiv (removeLayers x (← getInt j "k")))
  | "genome.add" => do
    let x ← parseIndiv (← getObj j "indiv")
    let o ← parseOracle (← getObj j "oracle")
    let newVals ← (fromJson? (← getObj j "new_vals") : Except String (List Int))
    pure (resIndiv (addRandomLayers x (← getInt j "n_layers") o (fun _ => newVals)))
  | "genome.random_layer" => do
    let n ← getNat j "n"
    let prev ← optLayer (← getObj j "prev")
    let o ← parseOracle (← getObj j "oracle")
    match randomLayer n prev o with
    | .ok (l, o') => pure (Json.mkObj [("ok", layerJson l), ("unused_coins", toJson o'.coins.length), ("unused_pairs", toJson o'.pairs.length)])
    | .error e => pure (Json.mkObj [("err", e.toString)])
  | "genome.random_individual" => do
    let n ← getNat j "n"
    let k ← getNat j "n_layers"
    let o ← parseOracle (← getObj j "oracle")
    let vals ← (fromJson? (← getObj j "vals") : Except String (List Int))
    pure (resIndiv (randomIndividual n k o (fun _ => vals)))
  | "genome.distance" => do
    let a ← parseIndiv (← getObj j "a")
    let b ← parseIndiv (← getObj j "b")
    pure (Json.mkObj [("distance", toJson (geneticDistance a b))])
  | "genome.views" => do
    let x ← parseIndiv (← getObj j "indiv")
    let sym ← (fromJson? (← getObj j "symbolic") : Except String (List Nat))
    pure (Json.mkObj [("order", Json.arr ((sortSlots (allSlots x)).map slotJson).toArray),
      ("full", bindingJson (bindFull x)), ("partial", bindingJson (bindPartial x sym))])
  | _ => throw s!"unknown op {op}"

end QVerif.Driver.Genome

def main : IO Unit := QVerif.Driver.run QVerif.Driver.Genome.handle
