import QVerif.Driver.Util
import QVerif.Model.Codec
open Lean QVerif.Driver QVerif.Codec
open QVerif.Genome (Gate Layer)
open QVerif.Jssp (Operation Job Instance SchedOp Schedule)

/-! Driver of the codec model (C18).  Trees travel tagged: `null`, booleans, integers and strings as themselves, floats as
`{"f": repr}`, arrays as arrays, JSON objects as `{"o": [[key, value], …]}`. -/

namespace QVerif.Driver.Codec

partial def parseJ (j : Json) : Except String J :=
  match j with
  | .null => pure .null
  | .bool b => pure (.bool b)
  | .str s => pure (.str s)
  | .num n => if n.exponent = 0 then pure (.num (.int n.mantissa)) else throw "non-integer number (floats travel tagged)"
  | .arr a => do pure (.arr (← a.toList.mapM parseJ))
  | .obj _ =>
    match j.getObjVal? "f" with
    | .ok (.str r) => pure (.num (.float r))
    | _ =>
      match j.getObjVal? "o" with
      | .ok (.arr kvs) => do
        let fs ← kvs.toList.mapM (fun kv => match kv with
          | .arr #[.str k, v] => do pure (k, ← parseJ v)
          | _ => throw "bad object entry")
        pure (.obj fs)
      | _ => throw "bad tagged tree"

def rNum : Num → Json
  | .int i => toJson i
  | .float r => Json.mkObj [("f", Json.str r)]

partial def renderJ : J → Json
  | .null => .null
  | .bool b => .bool b
  | .num n => rNum n
  | .str s => .str s
  | .arr l => Json.arr (l.map renderJ).toArray
  | .obj kvs => Json.mkObj [("o", Json.arr (kvs.map (fun (k, v) => Json.arr #[.str k, renderJ v])).toArray)]

def tag (t : String) (fields : List (String × Json)) : Json := Json.mkObj (("t", Json.str t) :: fields)

def rOptWith {α} (f : α → Json) : Option α → Json
  | none => .null
  | some a => f a

def rList {α} (f : α → Json) (l : List α) : Json := Json.arr (l.map f).toArray

def rGate : Gate → Json
  | .id q => tag "gate" [("k", "identity"), ("q", toJson q)]
  | .rot q => tag "gate" [("k", "rotation"), ("q", toJson q)]
  | .ctrl q c => tag "gate" [("k", "control"), ("q", toJson q), ("c", toJson c)]
  | .crot q c => tag "gate" [("k", "controlled_rotation"), ("q", toJson q), ("c", toJson c)]

def rLayer (l : Layer) : Json := tag "layer" [("n", toJson l.nQubits), ("gates", rList rGate l.gates)]

def rIndiv (x : CIndiv) : Json :=
  tag "indiv" [("n", toJson x.nQubits), ("layers", rList rLayer x.layers), ("params", rList rNum x.params)]

def rPop (p : Pop) : Json :=
  tag "pop" [("individuals", rList rIndiv p.individuals), ("reps", rOptWith (rList rIndiv) p.reps),
    ("members", rOptWith (rList (fun (e : CIndiv × List Int) => Json.arr #[rIndiv e.1, toJson e.2])) p.members),
    ("membership", rOptWith (rList (fun (e : Int × CIndiv) => Json.arr #[toJson e.1, rIndiv e.2])) p.membership)]

def rScalar : Scalar → Json
  | .real n => rNum n
  | .complex re im => tag "complex" [("re", rNum re), ("im", rNum im)]

def rQuasi (q : Quasi) : Json :=
  tag "quasi" [("data", rList (fun (e : Int × Num) => Json.arr #[toJson e.1, rNum e.2]) q.data), ("shots", rOptWith rNum q.shots),
    ("stddev", rOptWith rNum q.stddev)]

def rEvalRes (e : EvalRes) : Json :=
  tag "evalres" [("pop", rPop e.pop), ("values", rList (rOptWith rNum) e.values), ("best", rIndiv e.best), ("best_value", rNum e.bestValue)]

def rAux : Aux → Json
  | .none => .null
  | .list l => tag "list" [("v", rList rScalar l)]
  | .dict l => tag "pydict" [("v", rList (fun (e : String × Scalar) => Json.arr #[.str e.1, rScalar e.2]) l)]

def rResult (r : Result) : Json :=
  tag "result" [("eigenvalue", rOptWith rScalar r.eigenvalue), ("aux", rAux r.aux), ("eigenstate", rOptWith rQuasi r.eigenstate),
    ("best", rOptWith rIndiv r.best), ("evals", rOptWith (fun (l : List Int) => tag "list" [("v", toJson l)]) r.evals),
    ("generations", rOptWith (fun (i : Int) => toJson i) r.generations),
    ("history", rOptWith (fun l => tag "list" [("v", rList rEvalRes l)]) r.history),
    ("init", rOptWith (fun (_ : String) => tag "circuit" []) r.init)]

def rOp (o : Operation) : Json :=
  tag "op" [("name", .str o.name), ("job_name", .str o.jobName), ("machine", tag "machine" [("name", .str o.machine)]), ("dur", toJson o.dur)]

def rJob (j : Job) : Json := tag "job" [("name", .str j.name), ("ops", tag "tuple" [("v", rList rOp j.ops)])]

def rInst (i : Instance) : Json :=
  tag "inst" [("name", .str i.name), ("machines", tag "tuple" [("v", rList (fun m => tag "machine" [("name", Json.str m)]) i.machines)]),
    ("jobs", tag "tuple" [("v", rList rJob i.jobs)])]

def rPsched (s : SchedOp) : Json :=
  match s.start with
  | none => tag "unscheduled" [("op", rOp s.op)]
  | some t => tag "scheduled" [("op", rOp s.op), ("start", toJson t)]

partial def renderV : V → Json
  | .none => .null
  | .bool b => .bool b
  | .num n => rNum n
  | .str s => .str s
  | .list l => tag "list" [("v", Json.arr (l.map renderV).toArray)]
  | .tuple l => tag "tuple" [("v", Json.arr (l.map renderV).toArray)]
  | .dict kvs => tag "dict" [("v", Json.arr (kvs.map (fun (k, v) => Json.arr #[.str k, renderV v])).toArray)]
  | .pydict kvs => tag "pydict" [("v", Json.arr (kvs.map (fun (k, v) => Json.arr #[renderV k, renderV v])).toArray)]
  | .gate g => rGate g
  | .layer l => rLayer l
  | .indiv x => rIndiv x
  | .pop p => rPop p
  | .complex re im => tag "complex" [("re", rNum re), ("im", rNum im)]
  | .quasi q => rQuasi q
  | .circuit _ => tag "circuit" []
  | .evalres e => rEvalRes e
  | .result r => rResult r
  | .machine m => tag "machine" [("name", .str m)]
  | .op o => rOp o
  | .job j => rJob j
  | .inst i => rInst i
  | .psched s => rPsched s
  | .jresult i s => tag "jresult" [("inst", rInst i),
      ("schedule", tag "pydict" [("v", rList (fun (e : Job × List SchedOp) => Json.arr #[rJob e.1, tag "tuple" [("v", rList rPsched e.2)]]) s)])]

/-- the model's encoder on a decoded typed object -/
def encV : V → Option J
  | .gate g => some (encGate g)
  | .layer l => some (encLayer l)
  | .indiv x => some (encIndiv x)
  | .pop p => some (encPop p)
  | .complex re im => some (encScalar (.complex re im))
  | .quasi q => some (encQuasi q)
  | .circuit c => some (encCircuit c)
  | .evalres e => some (encEvalRes e)
  | .result r => some (encResult r)
  | .machine m => some (encMachine m)
  | .op o => some (encOp o)
  | .job j => some (encJob j)
  | .inst i => some (encInst i)
  | .psched s => some (encPsched s)
  | .jresult i s => some (encJResult i s)
  | _ => none

def errStr : Err → String
  | .keyError k => s!"keyError:{k}"
  | .unknownGate => "unknownGate"
  | .layerInvalid => "layerInvalid"
  | .individualInvalid => "individualInvalid"
  | .jssp e => s!"jssp:{e.toString}"
  | .illTyped w => s!"illTyped:{w}"

/-- structural key equality of individuals (the harness only builds dicts whose keys are structurally different) -/
def keq (a b : CIndiv) : Bool := a == b

def hookOf (codec : String) : Except String Hook :=
  match codec with
  | "layer" => pure hookLayer
  | "pop" => pure (hookPop keq)
  | "base" => pure (hookBase keq)
  | "jssp" => pure hookJssp
  | c => throw s!"unknown codec {c}"

def handle : Handler := fun op j =>
  match op with
  | "codec.roundtrip" => do
    let hook ← hookOf (← getStr j "codec")
    let t ← parseJ (← getObj j "tree")
    match dec hook t with
    | .error e => pure (Json.mkObj [("error", Json.str (errStr e))])
    | .ok v =>
      pure (Json.mkObj [("decoded", renderV v),
        ("reencoded", match encV v with | some t' => renderJ t' | none => Json.str "untyped")])
  | _ => throw s!"unknown op {op}"

end QVerif.Driver.Codec

def main : IO Unit := QVerif.Driver.run QVerif.Driver.Codec.handle
