import QVerif.Driver.Util
import QVerif.Model.Jssp
open Lean QVerif.Driver QVerif.Jssp

namespace QVerif.Driver.Jssp

def parseOp (j : Json) : Except String Operation := do
  pure { name := ← getStr j "name", jobName := ← getStr j "job", machine := ← getStr j "machine", dur := ← getInt j "dur" }

def parseJob (j : Json) : Except String Job := do
  pure { name := ← getStr j "name", ops := (← (← getArr j "ops").toList.mapM parseOp) }

def parseInst (j : Json) : Except String Instance := do
  let ms ← (← getArr j "machines").toList.mapM (fun m => (fromJson? m : Except String String))
  pure { name := ← getStr j "name", machines := ms, jobs := (← (← getArr j "jobs").toList.mapM parseJob) }

def parseSchedOp (j : Json) : Except String SchedOp := do
  pure { op := ← parseOp (← getObj j "op"), start := ← optInt (← getObj j "start") }

def parseSched (j : Json) : Except String Schedule := do
  (← (fromJson? j : Except String (Array Json))).toList.mapM (fun e => do
    let job ← parseJob (← getObj e "job")
    let row ← (← getArr e "row").toList.mapM parseSchedOp
    pure (job, row))

def exceptJson (r : Except Err Unit) : Json :=
  match r with
  | .ok _ => Json.mkObj [("ok", true)]
  | .error e => Json.mkObj [("err", e.toString)]

def handle : Handler := fun op j =>
  match op with
  | "jssp.build" => do
    let i ← parseInst (← getObj j "inst")
    pure (exceptJson (buildInstance i))
  | "jssp.result" => do
    let i ← parseInst (← getObj j "inst")
    let s ← parseSched (← getObj j "sched")
    match checkResult i s with
    | .error e => pure (Json.mkObj [("err", e.toString)])
    | .ok _ =>
      let v := isValid i s
      let ms : Json := match makespan i s with | none => Json.null | some m => toJson m
      let vs := match validSchedule i s with | .ok _ => "ok" | .error e => e.toString
      pure (Json.mkObj [("ok", true), ("valid", v), ("makespan", ms), ("valid_schedule", vs)])
  | _ => throw s!"unknown op {op}"

end QVerif.Driver.Jssp

def main : IO Unit := QVerif.Driver.run QVerif.Driver.Jssp.handle
