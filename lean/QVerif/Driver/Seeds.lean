import QVerif.Driver.Util
import QVerif.Model.Seeds
open Lean QVerif.Driver QVerif.Seeds

/-! Driver of the seed-plumbing model (C17): a counter generator (a draw returns its position in the stream), so the
answer names, for every submitted task, the position of the draw that is its seed. -/

namespace QVerif.Driver.Seeds

def counter : Rng Nat Nat := { rand := fun s => (s, s + 1), seed := fun s => (s, s + 1) }

/-- decision of every draw position, from the decisions per individual in loop order -/
def drawDecisions : List Bool → List Bool
  | [] => []
  | true :: t => true :: false :: drawDecisions t
  | false :: t => false :: drawDecisions t

def parseActs (j : Json) : Except String (List Act) := do
  let a ← (fromJson? j : Except String (Array Json))
  a.toList.mapM (fun x => match x with
    | .str "submit" => pure Act.submit
    | .arr #[.str "run", k] => do pure (Act.run (← (fromJson? k : Except String Nat)))
    | _ => throw "bad action")

def handle : Handler := fun op j =>
  match op with
  | "seeds.order" => pure (Json.mkObj [("order", toJson seedOrder)])
  | "seeds.mutation" => do
    let decisions ← (fromJson? (← getObj j "decisions") : Except String (List Bool))
    let acts ← parseActs (← getObj j "schedule")
    let dd := drawDecisions decisions
    let c : Cfg Nat Nat Nat (Nat × Nat) :=
      { R := counter, mutate := fun u => dd.getD u false, inds := List.range decisions.length, task := fun x sd => (x, sd) }
    let st := exec c 0 acts
    let complete := decide (st.next = c.inds.length) && st.pending.isEmpty
    let res := gather (fun x => (x, 0)) c.inds st
    let (rs, rtasks) := subAt c 0 c.inds.length
    pure (Json.mkObj [("complete", toJson complete), ("draws", toJson st.rng),
      ("tasks", Json.arr ((c.inds.zip res).filterMap (fun (i, _) =>
          match st.done.lookup i with | some (_, sd) => some (Json.arr #[toJson i, toJson sd]) | none => none)).toArray),
      ("reference_draws", toJson rs),
      ("reference_tasks", Json.arr (rtasks.map (fun t => Json.arr #[toJson t.idx, toJson t.seed])).toArray)])
  | "seeds.run" => do
    -- a whole run: `n_ops` operators (counter generators), a population of `n` individuals, applications [{op, decisions, schedule}];
    -- an individual is the list of the seeds (draw positions in its operator's stream, tagged with the operator) its tasks received
    let nOps ← getNat j "n_ops"
    let n ← getNat j "n"
    let apps ← (← getArr j "seq").toList.mapM (fun a => do
      let k ← getNat a "op"
      let ds ← (fromJson? (← getObj a "decisions") : Except String (List Bool))
      let acts ← parseActs (← getObj a "schedule")
      pure (k, ds, acts))
    -- decision of every draw position of every operator's stream (its applications in order)
    let ddOf (k : Nat) : List Bool := (apps.filter (fun a => a.1 == k)).flatMap (fun a => drawDecisions a.2.1)
    let ops : List (Op Nat Nat (List (Nat × Nat))) := (List.range nOps).map (fun k =>
      { R := counter, mutate := fun u => (ddOf k).getD u false, task := fun x sd => (k, sd) :: x })
    let st0 : RunSt Nat (List (Nat × Nat)) := { gens := List.replicate nOps 0, pop := List.replicate n [] }
    let seq := apps.map (fun a => (a.1, a.2.2))
    let fin := runWith ops st0 seq
    let ref := runRef ops st0 (seq.map (·.1))
    let complete := decide (fin.gens = ref.gens) && decide (fin.pop = ref.pop)
    pure (Json.mkObj [("schedule_run_equals_reference", toJson complete), ("gens", toJson ref.gens),
      ("pop", Json.arr (ref.pop.map (fun x => Json.arr (x.reverse.map (fun e => Json.arr #[toJson e.1, toJson e.2])).toArray)).toArray)])
  | _ => throw s!"unknown op {op}"

end QVerif.Driver.Seeds

def main : IO Unit := QVerif.Driver.run QVerif.Driver.Seeds.handle
