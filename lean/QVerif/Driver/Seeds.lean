import QVerif.Driver.Util
import QVerif.Model.Seeds
open Lean QVerif.Driver QVerif.Seeds

/-! Driver of the seed-plumbing model (C17): a counter generator (a draw returns its position in the stream), so the
answer names, for every submitted task, the position of the draw that is its seed. -/

namespace QVerif.Driver.Seeds

def counter : Rng Nat Nat := { rand := fun s => (s, s + 1), seed := fun s => (s, s + 1) }

/-- decision of every draw position, from the decisions per individual in loop order -/
def drawDecisions : List Bool → List Bool
  | [] => []
  | true :: t => true :: false :: drawDecisions t
  | false :: t => false :: drawDecisions t

def parseActs (j : Json) : Except String (List Act) := do
  let a ← (fromJson? j : Except String (Array Json))
  a.toList.mapM (fun x => match x with
    | .str "submit" => pure Act.submit
    | .arr #[.str "run", k] => do pure (Act.run (← (fromJson? k : Except String Nat)))
    | _ => throw "bad action")

def handle : Handler := fun op j =>
  match op with
  | "seeds.order" => pure (Json.mkObj [("order", toJson seedOrder)])
  | "seeds.mutation" => do
    let decisions ← (fromJson? (← getObj j "decisions") : Except String (List Bool))
    let acts ← parseActs (← getObj j "schedule")
    let dd := drawDecisions decisions
    let c : Cfg Nat Nat Nat (Nat × Nat) :=
      { R := counter, mutate := fun u => dd.getD u false, inds := List.range decisions.length, task := fun x sd => (x, sd) }
    let st := exec c 0 acts
    let complete := decide (st.next = c.inds.length) && st.pending.isEmpty
    let res := gather (fun x => (x, 0)) c.inds st
    let (rs, rtasks) := subAt c 0 c.inds.length
    pure (Json.mkObj [("complete", toJson complete), ("draws", toJson st.rng),
      ("tasks", Json.arr ((c.inds.zip res).filterMap (fun (i, _) =>
          match st.done.lookup i with | some (_, sd) => some (Json.arr #[toJson i, toJson sd]) | none => none)).toArray),
      ("reference_draws", toJson rs),
      ("reference_tasks", Json.arr (rtasks.map (fun t => Json.arr #[toJson t.idx, toJson t.seed])).toArray)])
  | _ => throw s!"unknown op {op}"

end QVerif.Driver.Seeds

def main : IO Unit := QVerif.Driver.run QVerif.Driver.Seeds.handle
