import QVerif.Model.Jssp
import QVerif.Lemmas.Jssp
