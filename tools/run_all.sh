#!/bin/bash
# run_all.sh [tier] [jobs] : every registered check on /repo's working tree (VERIF_SEED honoured), `jobs` at a time; prints one line per check
cd "$(dirname "$0")/.."
tier=${1:-quick}; jobs=${2:-5}
mkdir -p out/logs
printf "%s\n" C01 C02 C03 C04 C05 C06 C07 C08 C09 C10 C11 C12 C13 C14 C15 C16 C17 C18 C19 C20 | \
  xargs -P "$jobs" -I{} sh -c "/venv/bin/python tools/check.py {} --tier $tier > out/logs/all_{}.log 2>&1; echo \"{} exit=\$? \$(grep -E '^\[C|VIOLATION|TIMEOUT|INFRA' out/logs/all_{}.log | tr '\n' ' ' | cut -c1-220)\""
