#!/bin/bash
# confirm_seed.sh <id> [<name>] : confirms a seeded change in the scratch worktree /tmp/wt/<name> (default <id>):
#   the worktree is reset to HEAD + /tmp/wt_out/<name>/patch.diff; demo fails with the change, the unedited suite
#   passes with it, demo passes without it.  Writes /tmp/wt_out/<name>/confirm.json.  (No `git stash`: it is shared
#   between worktrees.)
id=$1; name=${2:-$1}; wt=/tmp/wt/${3:-$name}; out=/tmp/wt_out/$name
cd $wt || exit 2
git checkout -q -- . && git apply $out/patch.diff || { echo "patch does not apply"; exit 2; }
PYTHONPATH=$wt timeout 300 /venv/bin/python $out/demo.py > $out/demo_with.log 2>&1; with=$?
PYTHONPATH=$wt timeout 1500 /venv/bin/python -m pytest -q -p no:cacheprovider --timeout=900 -n 8 > $out/suite_with.log 2>&1; suite=$?
git apply -R $out/patch.diff
PYTHONPATH=$wt timeout 300 /venv/bin/python $out/demo.py > $out/demo_without.log 2>&1; without=$?
git apply $out/patch.diff
summary=$(tail -1 $out/suite_with.log)
echo "{\"id\":\"$id\",\"demo_with_change_exit\":$with,\"suite_with_change_exit\":$suite,\"suite_summary\":\"$summary\",\"demo_without_change_exit\":$without}" > $out/confirm.json
cat $out/confirm.json
