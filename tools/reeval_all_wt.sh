#!/bin/bash
# reeval_all_wt.sh [jobs] : re-runs the registered quick check against EVERY stored seeded change, each in its own scratch worktree of /repo
# (patch applied there, worktree in front of the check's import path, evidence redirected), `jobs` at a time; updates seeded/<name>/meta.json.
cd "$(dirname "$0")/.."
jobs=${1:-4}
mkdir -p /tmp/wt /tmp/wt_out out/logs
one() {
  name=$1; pid=${name:0:3}; wt=/tmp/wt/re_$name
  git -C /repo worktree add --detach $wt HEAD > /dev/null 2>&1 || { echo "$name worktree failed"; return; }
  if ! git -C $wt apply /verif/seeded/$name/patch.diff 2> /dev/null; then
    echo "$name PATCH-DOES-NOT-APPLY"; git -C /repo worktree remove --force $wt; return
  fi
  t0=$(date +%s)
  PYTHONPATH=$wt VERIF_EVIDENCE_DIR=/tmp/wt_out/re_$name timeout 3000 /venv/bin/python tools/check.py $pid --tier quick > out/logs/reeval_$name.log 2>&1; rc=$?
  wall=$(( $(date +%s) - t0 ))
  git -C /repo worktree remove --force $wt; rm -rf /tmp/wt_out/re_$name
  /venv/bin/python - "$name" "$rc" "$wall" <<'PY'
import json, sys
name, rc, wall = sys.argv[1], int(sys.argv[2]), int(sys.argv[3])
out = open(f"out/logs/reeval_{name}.log").read().strip().split("\n")
viol = [l for l in out if l.startswith("VIOLATION")]
p = f"seeded/{name}/meta.json"; m = json.load(open(p)); prev = m.get("check", {})
m.setdefault("check_history", []).append({k: prev.get(k) for k in ("detected", "with_failing_input", "wall_s")})
m["check"] = {"cmd": prev.get("cmd"), "exit": rc, "detected": rc == 1 and bool(viol), "with_failing_input": bool(viol) and "no-failing-input-found" not in viol[0],
              "violation_line": viol[0] if viol else None, "summary": [l[:400] for l in out[-6:]], "wall_s": wall, "evaluated_in": "scratch worktree (tools/reeval_all_wt.sh)"}
json.dump(m, open(p, "w"), indent=1)
print(name, "detected" if m["check"]["detected"] else "MISSED", "(failing input)" if m["check"]["with_failing_input"] else "(no failing input)" if m["check"]["detected"] else "", f"{wall}s")
PY
}
export -f one
(if [ -n "$SEEDS" ]; then printf "%s\n" $SEEDS; else ls seeded; fi) | xargs -P "$jobs" -I{} bash -c 'one {}'
git -C /repo worktree prune
