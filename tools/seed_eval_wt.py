#!/usr/bin/env python3
"""seed_eval_wt.py <property-id> <seed-name> : like seed_eval.py, but /repo is left alone: the confirmed change is evaluated in its scratch worktree
/tmp/wt/<seed-name> (which contains the patch), which is put in front of the import path of the registered quick check (PYTHONPATH), the evidence
of that run goes to a scratch directory.  Lets several changes be evaluated at once and while other runs use /repo."""
import json, os, shutil, subprocess, sys, time
VERIF = os.path.dirname(os.path.dirname(os.path.abspath(__file__)))
pid, name = sys.argv[1], sys.argv[2]
src, wt, dst = f"/tmp/wt_out/{name}", f"/tmp/wt/{name}", os.path.join(VERIF, "seeded", name)
confirm = json.load(open(f"{src}/confirm.json"))
assert confirm["demo_with_change_exit"] != 0 and confirm["demo_without_change_exit"] == 0 and confirm["suite_with_change_exit"] == 0, confirm
os.makedirs(dst, exist_ok=True)
for f in ("patch.diff", "demo.py", "notes.md"):
    shutil.copy(f"{src}/{f}", f"{dst}/{f}")
# the worktree must hold exactly the stored patch
d = subprocess.run(["git", "-C", wt, "diff"], capture_output=True, text=True).stdout
assert d.strip() == open(f"{dst}/patch.diff").read().strip(), "worktree does not contain exactly the patch"
env = dict(os.environ, PYTHONPATH=wt, VERIF_EVIDENCE_DIR=f"/tmp/wt_out/{name}/evidence")
t0 = time.time()
p = subprocess.run(["/venv/bin/python", "tools/check.py", pid, "--tier", "quick"], cwd=VERIF, capture_output=True, text=True, timeout=3000, env=env)
out = p.stdout.strip().split("\n")
viol = [l for l in out if l.startswith("VIOLATION")]
meta = {
    "property": pid, "seed": name, "needs_to_manifest": open(f"{src}/notes.md").read()[:1500],
    "confirmed": {"how": "tools/confirm_seed.sh in a scratch worktree of /repo (outside /repo and /verif): demo.py with the change, the unedited 65-test suite with the change (pytest -n 8), demo.py with the change reverted", **confirm},
    "check": {"cmd": f"PYTHONPATH=<scratch worktree of /repo with seeded/{name}/patch.diff applied> /venv/bin/python tools/check.py {pid} --tier quick   (equivalent: git -C /repo apply seeded/{name}/patch.diff; /venv/bin/python tools/check.py {pid} --tier quick; git -C /repo checkout -- .)",
              "exit": p.returncode, "detected": p.returncode == 1 and bool(viol), "with_failing_input": bool(viol) and "no-failing-input-found" not in viol[0],
              "violation_line": viol[0] if viol else None, "summary": [l[:400] for l in out[-6:]], "wall_s": round(time.time() - t0, 1)},
}
old = os.path.join(dst, "meta.json")
if os.path.exists(old):
    prev = json.load(open(old))
    meta["check_history"] = prev.get("check_history", []) + [{k: prev.get("check", {}).get(k) for k in ("detected", "with_failing_input", "wall_s")}]
json.dump(meta, open(old, "w"), indent=1)
print(name, "detected" if meta["check"]["detected"] else "MISSED", "(failing input)" if meta["check"]["with_failing_input"] else "", f"{meta['check']['wall_s']}s")
