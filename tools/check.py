#!/usr/bin/env python3
"""check.py <property-id> [--tier quick|thorough] [--replay <file>]

Decides one property of /repo's current working tree:

 1. proof obligations: `lake build` of the property's Lean modules (model, lemmas, property theorems),
    hygiene grep (no sorry/admit/axiom/native_decide/...), `#print axioms` audit of every property theorem;
 2. tie to the source: the correspondence check (harness/corr_<id>.py) runs the implementation and the Lean
    model on the same generated inputs and diffs the canonicalised outputs; the same run evaluates the
    property directly on the implementation (independent oracle);
 3. if (1) or (2) breaks, a failing-input search (the oracle at the thorough size) looks for a concrete
    input on which the property fails on the real code.

exit 0: property held.  exit 1: `VIOLATION property=<id> replay=<path>[ no-failing-input-found]`.
exit 2: infrastructure problem / timeout (never reported as a violation).
"""
from __future__ import annotations

import argparse
import importlib
import json
import os
import re
import subprocess
import sys
import time
import traceback

VERIF = os.path.dirname(os.path.dirname(os.path.abspath(__file__)))
sys.path.insert(0, os.path.join(VERIF, "harness"))
import common  # noqa: E402

LEAN_DIR = common.LEAN_DIR
ALLOWED_AXIOMS = {"propext", "Classical.choice", "Quot.sound"}
FORBIDDEN = re.compile(r"\bsorry\b|\badmit\b|^\s*axiom\s|native_decide|bv_decide|implemented_by|\bunsafe\s|maxHeartbeats\s+0|@\[extern")


def sh(cmd, cwd=None, timeout=None):
    p = subprocess.run(cmd, cwd=cwd, stdout=subprocess.PIPE, stderr=subprocess.STDOUT, text=True, timeout=timeout)
    return p.returncode, p.stdout


def lake_build(targets, timeout=3000):
    return sh(["lake", "build", *targets], cwd=LEAN_DIR, timeout=timeout)


def strip_comments(src: str) -> str:
    # remove nested block comments and line comments
    out = []
    i, depth, n = 0, 0, len(src)
    while i < n:
        if src.startswith("/-", i):
            depth += 1
            i += 2
        elif depth and src.startswith("-/", i):
            depth -= 1
            i += 2
        elif depth:
            if src[i] == "\n":
                out.append("\n")
            i += 1
        elif src.startswith("--", i):
            while i < n and src[i] != "\n":
                i += 1
        else:
            out.append(src[i])
            i += 1
    return "".join(out)


def module_path(mod: str) -> str:
    return os.path.join(LEAN_DIR, *mod.split(".")) + ".lean"


def import_closure(mods):
    seen, todo = [], list(mods)
    while todo:
        m = todo.pop()
        if m in seen or not m.startswith("QVerif"):
            continue
        p = module_path(m)
        if not os.path.exists(p):
            continue
        seen.append(m)
        for line in open(p):
            mm = re.match(r"\s*(?:public\s+)?import\s+([\w.]+)", line)
            if mm:
                todo.append(mm.group(1))
    return sorted(seen)


def hygiene(mods):
    bad = []
    for m in import_closure(mods):
        src = strip_comments(open(module_path(m)).read())
        for ln, line in enumerate(src.split("\n"), 1):
            if FORBIDDEN.search(line):
                bad.append(f"{m}:{ln}: {line.strip()[:120]}")
    return bad


def audit(prop, mods, theorems):
    """Run `#print axioms` on every property theorem; returns (ok, per-theorem axioms, problems)."""
    d = os.path.join(LEAN_DIR, ".lake", "audit")
    os.makedirs(d, exist_ok=True)
    path = os.path.join(d, f"{prop}.lean")
    with open(path, "w") as f:
        for m in mods:
            f.write(f"import {m}\n")
        for t in theorems:
            f.write(f"#print axioms {t}\n")
    rc, out = sh(["lake", "env", "lean", path], cwd=LEAN_DIR, timeout=1800)
    res, problems = {}, []
    text = out.replace("\n  ", " ")
    for t in theorems:
        m = re.search(r"'" + re.escape(t) + r"' depends on axioms: \[([^\]]*)\]", text)
        if m:
            axs = [a.strip() for a in m.group(1).split(",") if a.strip()]
            res[t] = axs
            extra = [a for a in axs if a not in ALLOWED_AXIOMS]
            if extra:
                problems.append(f"{t}: unexpected axioms {extra}")
        elif re.search(r"'" + re.escape(t) + r"' does not depend on any axioms", text):
            res[t] = []
        else:
            problems.append(f"{t}: not found / not checked")
    if rc != 0:
        problems.append("audit file failed to elaborate: " + out[-1500:])
    return (not problems), res, problems


def start_coverage():
    """Line coverage of /repo's package while the correspondence runs (a measurement of what the tie exercised, reported in the
    evidence; never a verdict).  Uses coverage.py from /venv when present."""
    try:
        import coverage
    except Exception:
        return None
    os.environ.setdefault("COVERAGE_CORE", "sysmon")
    try:
        cov = coverage.Coverage(data_file=None, include=["*/queasars/*"], concurrency=["thread"], messages=False)
        cov.start()
        return cov
    except Exception:
        return None


def ranges(nums):
    out, nums = [], sorted(nums)
    i = 0
    while i < len(nums):
        j = i
        while j + 1 < len(nums) and nums[j + 1] == nums[j] + 1:
            j += 1
        out.append(str(nums[i]) if i == j else f"{nums[i]}-{nums[j]}")
        i = j + 1
    return ",".join(out)


def coverage_report(cov, prop):
    """Per anchored source file of the property: executable lines, lines executed during this run, the lines not reached."""
    if cov is None:
        return None
    try:
        cov.stop()
        anchors = []
        for line in open(os.path.join(VERIF, "properties.jsonl")):
            p = json.loads(line)
            if p["id"] == prop:
                anchors = p["anchors"]["files"]
        import queasars

        root = os.path.dirname(os.path.dirname(os.path.abspath(queasars.__file__)))
        rep = {}
        for rel in anchors:
            path = os.path.join(root, rel)
            if not os.path.exists(path):
                continue
            try:
                _, executable, _, missing, _ = cov.analysis2(path)
            except Exception as e:  # file never imported
                rep[rel] = {"executable": None, "executed": 0, "note": f"not measured: {e}"[:120]}
                continue
            rep[rel] = {"executable": len(executable), "executed": len(executable) - len(missing), "not_reached": ranges(missing)}
        return rep
    except Exception as e:
        return {"error": str(e)[:200]}


def load_known():
    p = os.path.join(VERIF, "known_findings.json")
    if not os.path.exists(p):
        return []
    return json.load(open(p)).get("findings", [])


def main():
    ap = argparse.ArgumentParser()
    ap.add_argument("prop")
    ap.add_argument("--tier", default=os.environ.get("VERIF_TIER", "quick"), choices=["quick", "thorough"])
    ap.add_argument("--replay")
    args = ap.parse_args()
    prop = args.prop
    seed = int(os.environ.get("VERIF_SEED", "0") or 0)
    os.environ.setdefault("QUEASARS_VERIF", "1")
    t0 = time.time()
    budget = float(os.environ.get("VERIF_BUDGET_S", "1500" if args.tier == "quick" else "5400"))
    # watchdog: a hang of the implementation under test (or of the harness) must end the check with exit 2 (no verdict), never block it
    hard = float(os.environ.get("VERIF_HARD_LIMIT_S", str(2 * budget + 600)))

    def _watchdog():
        time.sleep(hard)
        sys.stdout.write(f"TIMEOUT: check {prop} exceeded the hard limit of {hard:.0f} s (infrastructure, not a verdict)\n")
        sys.stdout.flush()
        os._exit(2)

    import threading

    threading.Thread(target=_watchdog, daemon=True).start()
    # a runaway implementation (or harness) must not take the machine down: if this process grows beyond VERIF_MEM_GB (resident), the check ends
    # with exit 2 (no verdict).  (An address-space limit is not used: it would be inherited by the Lean processes, which reserve far more.)
    def _memdog():
        cap = float(os.environ.get("VERIF_MEM_GB", "20")) * 2**30
        page = os.sysconf("SC_PAGE_SIZE")
        while True:
            time.sleep(2)
            try:
                rss = int(open("/proc/self/statm").read().split()[1]) * page
            except Exception:  # noqa: BLE001
                return
            if rss > cap:
                sys.stdout.write(f"MEMORY: check {prop} grew beyond {cap / 2**30:.0f} GB resident (infrastructure, not a verdict)\n")
                sys.stdout.flush()
                os._exit(2)

    threading.Thread(target=_memdog, daemon=True).start()

    cov = start_coverage() if os.environ.get("VERIF_COVERAGE", "1") != "0" and not args.replay else None
    mod = importlib.import_module(f"corr_{prop}")
    META = mod.META

    if args.replay:
        case = json.load(open(args.replay))
        ctx = common.Ctx(prop, args.tier, seed, model_ok=True)
        try:
            mod.replay(ctx, case)
        finally:
            ctx.close()
        print(json.dumps({"violations": ctx.violations, "disagreements": ctx.disagreements}, indent=1, default=str))
        return 1 if (ctx.violations or ctx.disagreements) else 0

    lean_mods = META["lean_modules"]
    drivers = ["QVerif.Driver." + d for d in META.get("drivers", [])]
    theorems = META["theorems"]
    broken: list[str] = []  # names of proof obligations / correspondences that no longer check

    # ---- 1. proof obligations ------------------------------------------------------------
    try:
        rc, out = lake_build(lean_mods + drivers)
    except subprocess.TimeoutExpired:
        print("TIMEOUT building the Lean project")
        return 2
    proof_ok = rc == 0
    model_ok = True
    build_log = ""
    if not proof_ok:
        build_log = out[-4000:]
        rc2, out2 = lake_build(drivers) if drivers else (0, "")
        model_ok = rc2 == 0
        failed = re.findall(r"error: (\S+\.lean:\d+:\d+)", out)
        broken.append("lake build " + " ".join(lean_mods) + " failed at " + ", ".join(failed[:5]))
    hyg = hygiene(lean_mods)
    if hyg:
        broken.append("forbidden construct in proof sources: " + "; ".join(hyg[:5]))
    axioms = {}
    if proof_ok:
        ok, axioms, problems = audit(prop, lean_mods, theorems)
        if not ok:
            broken.extend("axiom audit: " + p for p in problems[:5])
    discharged = len([t for t in theorems if t in axioms and set(axioms[t]) <= ALLOWED_AXIOMS]) if proof_ok and not hyg else 0
    # thorough tier: the toolchain's independent re-checker replays every declaration of the property's compiled modules through the kernel
    rechecked = None
    if proof_ok and args.tier == "thorough" and os.environ.get("VERIF_LEANCHECKER", "1") != "0":
        mods = [m for m in import_closure(lean_mods) if not m.startswith("QVerif.Driver")]
        try:
            rc3, out3 = sh(["lake", "env", "leanchecker", *mods], cwd=LEAN_DIR, timeout=2400)
            rechecked = {"modules": len(mods), "ok": rc3 == 0}
            if rc3 != 0:
                broken.append("leanchecker rejects the compiled proof modules: " + out3[-600:])
        except (subprocess.TimeoutExpired, FileNotFoundError) as e:
            rechecked = {"modules": len(mods), "ok": None, "note": f"not run: {type(e).__name__}"}

    # ---- 2. correspondence + oracle --------------------------------------------------------
    ctx = common.Ctx(prop, args.tier, seed, model_ok=model_ok, deadline=t0 + budget)
    infra_error = None
    try:
        corpus_dir = os.path.join(VERIF, "corpus", prop)
        if os.path.isdir(corpus_dir) and hasattr(mod, "replay"):
            for fn in sorted(os.listdir(corpus_dir)):
                if fn.endswith(".json"):
                    mod.replay(ctx, json.load(open(os.path.join(corpus_dir, fn))))
                    ctx.dist["corpus"] += 1
        mod.run(ctx)
    except common.DriverError as e:
        infra_error = f"model driver failed: {e}"
        broken.append(infra_error)
    except (KeyboardInterrupt, SystemExit):
        raise
    except BaseException as e:  # noqa: BLE001  (also pyo3 panics of Qiskit's Rust core, which derive from BaseException)
        infra_error = traceback.format_exc()
        # An exception raised INSIDE the implementation under test (innermost frame in /repo's package) while the harness exercised it is not an
        # infrastructure problem: the harness never raises on the unchanged tree, so the tie to the code could not be established for this run —
        # a correspondence that no longer checks.  (Exceptions raised by harness code itself stay infrastructure errors: exit 2, no verdict.)
        tb = traceback.extract_tb(e.__traceback__)
        if tb and (os.sep + "queasars" + os.sep) in tb[-1].filename and (os.sep + "harness" + os.sep) not in tb[-1].filename:
            where = f"{os.path.basename(tb[-1].filename)}:{tb[-1].lineno} in {tb[-1].name}"
            broken.append(f"correspondence run could not be completed: the implementation raised {type(e).__name__} ({str(e)[:80]}) at {where} "
                          "on an input on which it does not raise on the reference tree")
            ctx.notes.append("harness run aborted by an exception of the implementation:\n" + infra_error[-1500:])
            infra_error = None
    if infra_error and not isinstance(infra_error, str):
        infra_error = str(infra_error)

    if infra_error and "model driver failed" not in infra_error:
        ctx.close()
        print("INFRASTRUCTURE ERROR in the harness (not a verdict):\n" + infra_error)
        return 2

    if ctx.disagreements:
        kinds = sorted({d["what"] for d in ctx.disagreements})
        broken.append("correspondence model<->implementation disagrees on: " + ", ".join(kinds[:6]))

    # ---- 3. failing-input search when something broke and no concrete failure yet ------------
    searched = False
    if broken and not ctx.violations and args.tier == "quick" and hasattr(mod, "run"):
        searched = True
        ctx2 = common.Ctx(prop, "thorough", seed + 1, model_ok=False, deadline=time.time() + float(os.environ.get("VERIF_SEARCH_S", "240")))
        try:
            mod.run(ctx2)
        except Exception:
            ctx.notes.append("search run raised: " + traceback.format_exc()[-800:])
        finally:
            ctx2.close()
        ctx.violations.extend(ctx2.violations)
        ctx.notes.append(f"failing-input search: {ctx2.evaluations} further evaluations on the implementation")
    ctx.close()

    cov_rep = coverage_report(cov, prop)

    # ---- 4. verdict -------------------------------------------------------------------------
    known = [k for k in load_known() if k.get("property") == prop and k.get("status") == "known"]
    known_keys = {k["key"] for k in known}
    new_violations = [v for v in ctx.violations if v["key"] not in known_keys]
    hit_known = sorted({v["key"] for v in ctx.violations if v["key"] in known_keys})

    wall = time.time() - t0
    verdict_violation = bool(new_violations) or bool(broken)
    replay_path = None
    if new_violations:
        replay_path = common.write_replay(prop, {"property": prop, "kind": "failing-input", "case": new_violations[0],
                                                 "all": new_violations[:10], "broken": broken, "seed": seed, "tier": args.tier})
    elif broken:
        replay_path = common.write_replay(prop, {"property": prop, "kind": "no-failing-input-found", "broken": broken,
                                                 "disagreements": ctx.disagreements[:10], "build_log": build_log,
                                                 "seed": seed, "tier": args.tier})

    coverage = {
        "obligations": len(theorems),
        "discharged": discharged,
        "checker_cmd": f"cd lean && lake build {' '.join(lean_mods)} && lake env lean .lake/audit/{prop}.lean  (#print axioms on every property theorem)",
        "trusted_base": META.get("trusted_base", []),
        "theorems": {t: axioms.get(t) for t in theorems},
        "leanchecker": rechecked,
        "evaluations": ctx.evaluations,
        "distinct": ctx.distinct,
        "distinct_nontrivial": ctx.distinct_nontrivial,
        "rule": META.get("rule", ""),
        "samples": ctx.samples[:8] if ctx.samples else ["(no correspondence case was generated)"],
        "input_distribution": dict(ctx.dist),
        "skipped": dict(ctx.skipped),
        "correspondence_disagreements": len(ctx.disagreements),
        "implementation_violations": len(ctx.violations),
        "model_requests": sum(d.n_requests for d in ctx._drivers.values()),
        "broken": broken,
        "notes": ctx.notes,
        "failing_input_search_ran": searched,
        "anchored_source_line_coverage": cov_rep,
        **ctx.extra,
    }
    ev = {
        "property_id": prop,
        "tier": args.tier,
        "seed": seed,
        "level": META.get("level", "proof"),
        "coverage": coverage,
        "assumptions": META.get("assumptions", []),
        "wall_s": round(wall, 2),
        "violations": len(new_violations) + (1 if broken and not new_violations else 0),
    }
    evdir = os.environ.get("VERIF_EVIDENCE_DIR") or os.path.join(VERIF, "evidence")  # (redirected when a seeded change is evaluated)
    os.makedirs(evdir, exist_ok=True)
    with open(os.path.join(evdir, f"{prop}.json"), "w") as f:
        json.dump(ev, f, indent=1, sort_keys=True, default=str)

    for k in known:
        if k["key"] in hit_known or k.get("always_print", True):
            print(f"KNOWN-FINDING: property={prop} {k['what']}")
    print(f"[{prop}] tier={args.tier} seed={seed} theorems={discharged}/{len(theorems)} corr_cases={ctx.evaluations} "
          f"distinct_nontrivial={ctx.distinct_nontrivial} disagreements={len(ctx.disagreements)} "
          f"impl_violations={len(ctx.violations)} wall={wall:.1f}s")
    if ctx.out_of_time() and not verdict_violation:
        print("TIMEOUT: budget exhausted before the planned cases were all run (not a verdict)")
        return 2
    if verdict_violation:
        rel = os.path.relpath(replay_path, VERIF)
        for b in broken[:6]:
            print("  broken: " + b)
        if new_violations:
            v0 = new_violations[0]
            print("  what: " + str(v0.get("what"))[:300] + "   [key: " + str(v0.get("key"))[:80] + "]")
            print("  observed: " + common.canon(v0.get("observed"))[:400])
            print("  failing input: " + common.canon(v0.get("input"))[:600])
            print(f"VIOLATION property={prop} replay={rel}")
        else:
            print(f"VIOLATION property={prop} replay={rel} no-failing-input-found")
        return 1
    return 0


if __name__ == "__main__":
    _code = main()
    sys.stdout.flush()
    sys.stderr.flush()
    # not sys.exit: at interpreter shutdown Python joins the worker threads of every ThreadPoolExecutor (qiskit's PrimitiveJob uses one), and a
    # worker that is blocked inside a deadlocked implementation under test would keep the finished check alive forever
    os._exit(_code)
