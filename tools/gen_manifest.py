#!/usr/bin/env python3
"""Regenerates MANIFEST.json from the META tables of harness/corr_*.py (so it is always consistent)."""
import importlib, json, os, sys
VERIF = os.path.dirname(os.path.dirname(os.path.abspath(__file__)))
sys.path.insert(0, os.path.join(VERIF, "harness"))
os.environ.setdefault("QUEASARS_VERIF", "1")
ALL = [f"C{i:02d}" for i in range(1, 21)]
PENDING_REASON = "check not built yet in this commit (work in progress; see DESIGN.md section 5 for the planned model and theorems)"
NOT_APPLICABLE = {}  # id -> reason, for properties the technique genuinely cannot decide

# keep the Lean root module and the driver library in step with the files present
lean = os.path.join(VERIF, "lean")
mods = []
for root, _, files in os.walk(os.path.join(lean, "QVerif")):
    for f in files:
        if f.endswith(".lean"):
            mods.append(os.path.relpath(os.path.join(root, f), lean)[:-5].replace(os.sep, "."))
mods.sort()
with open(os.path.join(lean, "QVerif.lean"), "w") as fh:
    fh.write("".join(f"import {m}\n" for m in mods if ".Driver." not in m))
drivers = [m for m in mods if ".Driver." in m]
with open(os.path.join(lean, "lakefile.toml"), "w") as fh:
    fh.write('name = "QVerif"\nversion = "0.1.0"\ndefaultTargets = ["QVerif", "QVerifDrivers"]\n\n[[lean_lib]]\nname = "QVerif"\n\n'
             '[[lean_lib]]\nname = "QVerifDrivers"\nroots = [' + ", ".join(f'"{d}"' for d in drivers) + "]\n")

checks, na = [], []
for pid in ALL:
    path = os.path.join(VERIF, "harness", f"corr_{pid}.py")
    if pid in NOT_APPLICABLE:
        na.append({"property_id": pid, "reason": NOT_APPLICABLE[pid]})
        continue
    if not os.path.exists(path):
        na.append({"property_id": pid, "reason": PENDING_REASON})
        continue
    META = importlib.import_module(f"corr_{pid}").META
    checks.append({
        "property_id": pid,
        "quick_cmd": f"/venv/bin/python tools/check.py {pid} --tier quick",
        "thorough_cmd": f"/venv/bin/python tools/check.py {pid} --tier thorough",
        "evidence_file": f"/verif/evidence/{pid}.json",
        "replay_cmd_template": f"/venv/bin/python tools/check.py {pid} --replay {{path}}",
        "engine": "lean4-proof+correspondence",
        "level_claimed": {
            "category": META.get("level", "proof"),
            "text": META["level_text"],
            "design_ref": f"DESIGN.md section 5, {pid}",
        },
        "level_note": META["level_note"],
        "technique": META.get("technique", "Lean 4 theorems about a hand-written model + differential correspondence check against the implementation"),
    })
manifest = {
    "version": 1,
    "setup_cmd": "cd lean && lake build",
    "hooks": {
        "guard": "QUEASARS_VERIF",
        "enable": "no source hooks: the harness instruments from outside (module-level name replacement, subclassing, wrapper objects); QUEASARS_VERIF=1 is set by tools/check.py and read only by the harness",
        "baseline_off_cmd": "cd /repo && /venv/bin/python -m pytest -ra -q -p no:cacheprovider --timeout=900 --continue-on-collection-errors",
        "source_commits": [],
        "add_only": True,
    },
    "engines": [{
        "name": "lean4-proof+correspondence",
        "path": "tools/check.py",
        "serves_properties": [c["property_id"] for c in checks],
        "kind_free_text": "Lean 4 (4.33) kernel-checked theorems about hand-written executable models (lean/QVerif), tied to /repo's working tree on every run by a Python<->Lean differential correspondence check (harness/corr_*.py, JSON-lines drivers) plus an independent property oracle on the implementation used as failing-input search",
    }],
    "checks": checks,
    "not_applicable": na,
    "notes": "Fix commits for genuine defects are listed in known_findings.json (status fixed). DESIGN.md states the trusted base.",
}
try:
    import jsonschema
    jsonschema.validate(manifest, json.load(open("/root/.vp/MANIFEST.schema.json")))
except ImportError:
    pass
json.dump(manifest, open(os.path.join(VERIF, "MANIFEST.json"), "w"), indent=1)
print(f"{len(checks)} checks, {len(na)} not claimed")
