#!/usr/bin/env python3
"""seed_eval.py <property-id> [<seed-name>] : stores a confirmed seeded change under /verif/seeded/<seed-name>/ and
records whether the registered quick check of the property detects it (applies the patch to /repo, runs the
check, undoes the patch straight afterwards)."""
import json, os, shutil, subprocess, sys, time
VERIF = os.path.dirname(os.path.dirname(os.path.abspath(__file__)))
pid = sys.argv[1]; name = sys.argv[2] if len(sys.argv) > 2 else pid
src = f"/tmp/wt_out/{name}"; dst = os.path.join(VERIF, "seeded", name)
confirm = json.load(open(f"{src}/confirm.json"))
assert confirm["demo_with_change_exit"] != 0 and confirm["demo_without_change_exit"] == 0 and confirm["suite_with_change_exit"] == 0, confirm
os.makedirs(dst, exist_ok=True)
for f in ("patch.diff", "demo.py", "notes.md"):
    shutil.copy(f"{src}/{f}", f"{dst}/{f}")
assert subprocess.run(["git", "-C", "/repo", "status", "--porcelain"], capture_output=True, text=True).stdout.strip() == "", "/repo not clean"
subprocess.run(["git", "-C", "/repo", "apply", f"{dst}/patch.diff"], check=True)
t0 = time.time()
try:
    p = subprocess.run(["/venv/bin/python", "tools/check.py", pid, "--tier", "quick"], cwd=VERIF, capture_output=True, text=True, timeout=3000)
finally:
    subprocess.run(["git", "-C", "/repo", "checkout", "--", "."], check=True)
out = p.stdout.strip().split("\n")
viol = [l for l in out if l.startswith("VIOLATION")]
meta = {
    "property": pid,
    "seed": name,
    "needs_to_manifest": open(f"{src}/notes.md").read()[:1500],
    "confirmed": {
        "how": "tools/confirm_seed.sh in a scratch worktree of /repo (outside /repo and /verif): demo.py with the change, the unedited 65-test suite with the change (pytest -n 8), demo.py with the change reverted",
        **confirm,
    },
    "check": {
        "cmd": f"git -C /repo apply seeded/{name}/patch.diff; /venv/bin/python tools/check.py {pid} --tier quick; git -C /repo checkout -- .",
        "exit": p.returncode,
        "detected": p.returncode == 1 and bool(viol),
        "with_failing_input": bool(viol) and "no-failing-input-found" not in viol[0],
        "violation_line": viol[0] if viol else None,
        "summary": [l[:400] for l in out[-6:]],
        "wall_s": round(time.time() - t0, 1),
    },
}
json.dump(meta, open(f"{dst}/meta.json", "w"), indent=1)
print(name, "detected" if meta["check"]["detected"] else "MISSED", "(failing input)" if meta["check"]["with_failing_input"] else "", f"{meta['check']['wall_s']}s")
