#!/bin/bash
# reeval_seed.sh <seed-name>... : re-runs the registered quick check of each stored seeded change against the changed tree
# (applies seeded/<name>/patch.diff to /repo, runs the check, undoes the patch) and updates meta.json's "check" block.
cd "$(dirname "$0")/.."
for name in "$@"; do
  pid=${name:0:3}
  [ -z "$(git -C /repo status --porcelain)" ] || { echo "/repo not clean"; exit 2; }
  git -C /repo apply "$PWD/seeded/$name/patch.diff" || { echo "$name: patch does not apply"; continue; }
  t0=$(date +%s)
  /venv/bin/python tools/check.py $pid --tier quick > out/logs/reeval_$name.log 2>&1; rc=$?
  git -C /repo checkout -- .
  /venv/bin/python - "$name" "$pid" "$rc" "$(( $(date +%s) - t0 ))" <<'PY'
import json, sys
name, pid, rc, wall = sys.argv[1], sys.argv[2], int(sys.argv[3]), int(sys.argv[4])
out = open(f"out/logs/reeval_{name}.log").read().strip().split("\n")
viol = [l for l in out if l.startswith("VIOLATION")]
p = f"seeded/{name}/meta.json"; m = json.load(open(p))
prev = m.get("check", {})
m.setdefault("check_history", []).append({k: prev.get(k) for k in ("detected", "with_failing_input", "wall_s")})
m["check"] = {"cmd": prev.get("cmd"), "exit": rc, "detected": rc == 1 and bool(viol),
              "with_failing_input": bool(viol) and "no-failing-input-found" not in viol[0],
              "violation_line": viol[0] if viol else None, "summary": [l[:400] for l in out[-6:]], "wall_s": wall}
json.dump(m, open(p, "w"), indent=1)
print(name, "detected" if m["check"]["detected"] else "MISSED", "(failing input)" if m["check"]["with_failing_input"] else "", f"{wall}s")
PY
done
